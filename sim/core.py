"""Common core of the simulators: seed discipline, event digests, statistics, replay
files, known findings.  Nothing in this module reads a clock or draws from a PRNG on a
logging path: a run is a pure function of (run seed, code of /repo)."""

import hashlib
import json
import os
import random
import re

VERIF_DIR = os.path.dirname(os.path.dirname(os.path.abspath(__file__)))
REPO_DIR = os.environ.get("VERIF_REPO", "/repo")
JT_DIR = os.path.join(REPO_DIR, "jaxtyping") + os.sep


def H(*parts) -> int:
    """Stable 64-bit hash of a tuple of plain values (independent of PYTHONHASHSEED)."""
    s = json.dumps(parts, sort_keys=True, default=str).encode()
    return int.from_bytes(hashlib.sha256(s).digest()[:8], "big")


def rng(seed: int, *label) -> random.Random:
    """Independent PRNG sub-stream: drawing more numbers from one stream never shifts another."""
    return random.Random(H(seed, *label))


def run_seed(verif_seed: int, pid: str, tier: str, index: int) -> int:
    # tier is deliberately NOT part of the seed: thorough explores a superset of quick
    return H(verif_seed, pid, index) % (2**53)


def canon(obj) -> str:
    return json.dumps(obj, sort_keys=True, separators=(",", ":"), default=_default)


def _default(o):
    if isinstance(o, (set, frozenset)):
        return sorted(o, key=repr)
    if isinstance(o, tuple):
        return list(o)
    if isinstance(o, bytes):
        return o.hex()
    return repr(o)


def digest(obj) -> str:
    return hashlib.sha256(canon(obj).encode()).hexdigest()[:16]


_ADDR = re.compile(r"0x[0-9a-fA-F]+")


def norm_text(s: str) -> str:
    """Remove memory addresses from messages so that they can be compared across runs."""
    return _ADDR.sub("0x?", s)


class Stats:
    """Nested counters; merge is commutative so worker completion order is irrelevant."""

    def __init__(self):
        self.c = {}

    def inc(self, key, n=1):
        self.c[key] = self.c.get(key, 0) + n

    def mx(self, key, v):
        k = "max:" + key
        if v > self.c.get(k, 0):
            self.c[k] = v

    def merge(self, other):
        oc = other.c if isinstance(other, Stats) else other
        for k, v in oc.items():
            if k.startswith("max:"):
                if v > self.c.get(k, 0):
                    self.c[k] = v
            else:
                self.c[k] = self.c.get(k, 0) + v

    def get(self, key, default=0):
        return self.c.get(key, default)

    def prefix(self, p):
        return {k[len(p):]: v for k, v in sorted(self.c.items()) if k.startswith(p)}


class HarnessError(Exception):
    """The simulator itself failed (wedge, nondeterminism, bug): exit code 2, never a VIOLATION."""


def violation(pid, oracle, detail, sig=None, **extra):
    v = {"property": pid, "oracle": oracle, "detail": detail, "sig": sig or {"oracle": oracle}}
    v.update(extra)
    return v


# ----------------------------------------------------------------------------------------
# known findings

def load_known_findings():
    p = os.path.join(VERIF_DIR, "known_findings.json")
    try:
        with open(p) as f:
            data = json.load(f)
    except FileNotFoundError:
        return []
    return data.get("findings", [])


def _sub_match(pattern, sig):
    """pattern (dict) matches sig if every key of pattern is present in sig with an equal value
    (lists in the pattern mean 'one of')."""
    for k, v in pattern.items():
        if k not in sig:
            return False
        sv = sig[k]
        if isinstance(v, list) and not isinstance(sv, list):
            if sv not in v:
                return False
        elif sv != v:
            return False
    return True


def match_known(v, findings):
    for f in findings:
        if f.get("status") != "known":
            continue  # "fixed" entries suppress nothing
        if f.get("property") != v["property"]:
            continue
        if _sub_match(f.get("match", {"__never__": 1}), v.get("sig", {})):
            return f
    return None


# ----------------------------------------------------------------------------------------
# replay files

def write_replay(pid, seed, scenario, viol, dig, minimised):
    d = os.environ.get("VERIF_REPLAY_DIR") or os.path.join(VERIF_DIR, "replays")  # env override: tooling only
    os.makedirs(d, exist_ok=True)
    path = os.path.join(d, f"{pid}-{seed}.json")
    with open(path, "w") as f:
        json.dump(
            {
                "property": pid,
                "seed": seed,
                "minimised": minimised,
                "scenario": scenario,
                "expect": {"oracle": viol["oracle"], "sig": viol.get("sig"), "detail": viol["detail"],
                           "digest": dig},
            },
            f,
            indent=1,
            sort_keys=True,
            default=_default,
        )
    return path


# ----------------------------------------------------------------------------------------
# scratch directories: nothing may be left under /tmp.  Pool workers are terminated without running atexit handlers, so
# the PARENT creates one base directory per invocation (exported as VERIF_TMP), every worker creates its directories
# below it, and the parent removes the base in a finally block.

def scratch_dir(prefix):
    import atexit
    import shutil
    import tempfile

    base = os.environ.get("VERIF_TMP")
    if base and os.path.isdir(base):
        return tempfile.mkdtemp(prefix=prefix, dir=base)
    d = tempfile.mkdtemp(prefix=prefix)
    atexit.register(shutil.rmtree, d, True)
    return d


class ScratchBase:
    """Context manager used by every entry point of sim.main."""

    def __enter__(self):
        import tempfile

        self.prev = os.environ.get("VERIF_TMP")
        self.path = tempfile.mkdtemp(prefix="jtv_run_")
        os.environ["VERIF_TMP"] = self.path
        return self.path

    def __exit__(self, *a):
        import shutil

        shutil.rmtree(self.path, ignore_errors=True)
        if self.prev is None:
            os.environ.pop("VERIF_TMP", None)
        else:
            os.environ["VERIF_TMP"] = self.prev


def gc_point():
    """A fixed point at which cyclic garbage is collected (see the GC discipline note in sim/main.py)."""
    import gc

    gc.collect()
