"""ctxsim: executes thread programs (plain-data operation trees) on the real jaxtyping and records a
transcript per simulated thread.  Oracles live in sim/props/*; this module only builds the world
(annotation objects, decorated callables), interprets operations and offers observation helpers."""

import dataclasses
import json
import typing
import warnings

import numpy as np

import jaxtyping
from jaxtyping import PyTree, jaxtyped, print_bindings

from . import seams
from .core import HarnessError, norm_text
from .seams import TCS, Duck, FmtObj, Leaf, LeafSub, MDuck, MDuckSub, Node, NT, hit

_storage = jaxtyping._storage

# generated functions / dataclasses claim to live in module "simworld": make it a real module so that
# dataclasses (which look their module up in sys.modules) give __init__ a proper __module__
import sys as _sys
import types as _types

_sys.modules.setdefault("simworld", _types.ModuleType("simworld"))

ATYPES = {"np": np.ndarray, "duck": Duck, "mduck": MDuck, "any": typing.Any}
PY_SCALARS = {"float": float, "int": int, "bool": bool}
BUILTIN_TYPES = {"int": int, "str": str, "any": typing.Any, "leaf": Leaf, "float": float, "none": type(None)}


STRUCT_DTYPES = {"struct1": np.dtype([("first", np.uint8), ("second", np.int8)]),
                 "struct2": np.dtype([("x", np.float32), ("y", np.float32), ("z", np.int16)])}
_STRUCT_CATS = {}


def struct_category(name):
    if name not in _STRUCT_CATS:
        _STRUCT_CATS[name] = jaxtyping.make_numpy_struct_dtype(STRUCT_DTYPES[name.lower()], name)
    return _STRUCT_CATS[name]


def clear_caches():
    """Construction caches (lru_cache) make the 2nd execution of a seed take hits where the 1st took
    misses: different lines, different schedule.  Every phase of a run starts from cleared caches."""
    try:
        jaxtyping._array_types._make_array_cached.cache_clear()
    except AttributeError:
        pass
    try:
        type(PyTree).__getitem__.cache_clear()
    except AttributeError:
        pass


# ------------------------------------------------------------------------------------------
# white-box observation (guarded: a refactoring that removes an attribute degrades to black-box)

def snapshot():
    try:
        stack = getattr(_storage._shape_storage, "memo_stack", [])
        depth = len(stack)
        top = None
        if depth:
            s, v, p, a = stack[-1]
            top = {
                "single": {k: int(x) for k, x in s.items()},
                "variadic": {k: [bool(b), [int(y) for y in sh]] for k, (b, sh) in v.items()},
                "pytree": {k: str(td) for k, td in p.items()},
                "args": sorted(a.keys()),
            }
        return {
            "wb": True,
            "depth": depth,
            "top": top,
            "treepath": getattr(_storage._treepath_storage, "value", None),
            "treeflatten": bool(_storage.get_treeflatten_memo()),
        }
    except Exception as e:  # pragma: no cover
        return {"wb": False, "err": repr(e)}


def live_structs():
    """White-box: the PyTreeDef objects bound to structure names in the current context."""
    try:
        stack = getattr(_storage._shape_storage, "memo_stack", [])
        return dict(stack[-1][2]) if stack else {}
    except Exception:  # pragma: no cover
        return {}


def bindings_text():
    """The public observation: jaxtyping.print_bindings() captured through the per-thread router."""
    st = seams.state()
    keep = st.out[:]
    st.out.clear()
    with seams.quiet():
        print_bindings()
    s = "".join(st.out)
    st.out[:] = keep
    return s


# ------------------------------------------------------------------------------------------
# world

def py_name(scn, fid):
    """Python-level name of a generated callable.  Unique per scenario (a process-wide cache keyed by function name inside
    the system under test must not couple one scenario to the next: a run is a function of its seed alone); several
    callables of ONE scenario may deliberately share a name via spec['pyname'] (redefinitions, closures of a factory)."""
    spec = scn["fns"][fid]
    return f"{spec.get('pyname', fid)}_{scn.get('seed', 0) % 1000003}"


class World:
    def __init__(self, scn, interp):
        self.scn = scn
        self.interp = interp
        self.anns = {}
        self.fns = {}
        self.ns = {}

    def build(self, lazy_too=False):
        clear_caches()
        for aid in self.scn.get("anns", {}):
            self.ann(aid)
        for fid, spec in self.scn.get("fns", {}).items():
            if spec.get("lazy") and not lazy_too:
                continue
            self.fn(fid)

    def typ(self, ref):
        if ref is None:
            return None
        if ref in BUILTIN_TYPES:
            return BUILTIN_TYPES[ref]
        return self.ann(ref)

    def ann(self, aid):
        if aid in self.anns:
            return self.anns[aid]
        spec = self.scn["anns"][aid]
        k = spec["k"]
        if k == "arr":
            cat = struct_category(spec["dtype"]) if spec["dtype"].startswith("Struct") else getattr(jaxtyping, spec["dtype"])
            at = spec["atype"]
            if "+" in at:
                # Dtype[Union[array type, Python scalar type], dims]: jaxtyping distributes over the union and keeps the scalar type
                # itself iff every axis is a multi-axis specifier and the category has a dtype of that kind
                a0, s0 = at.split("+")
                base = typing.Union[ATYPES[a0], PY_SCALARS[s0]]
            else:
                base = self.ann(at[1:]) if at.startswith("@") else ATYPES[at]
            if spec.get("split") is not None:
                # the documented alternative spelling: Outer[Inner[T, "h w"], "3"] means (Outer and Inner)["3 h w"]; the spec (and
                # hence the model) describes the flat equivalent, the object under test is built in the nested form
                k, outer_kind = spec["split"]
                toks = spec["dims"].split(" ") if spec["dims"] else []
                inner = cat[base, " ".join(toks[k:])]
                out = (jaxtyping.Shaped if outer_kind == "shaped" else cat)[inner, " ".join(toks[:k])]
            else:
                out = cat[base, spec["dims"]]
        elif k == "tree":
            leaf = self.typ(spec["leaf"])
            out = PyTree[leaf] if spec.get("struct") is None else PyTree[leaf, spec["struct"]]
        elif k == "baretree":
            out = PyTree
        elif k == "tuple":
            out = tuple[tuple(self.typ(x) for x in spec["items"])]
        elif k == "union":
            if spec.get("pep604"):  # X | Y (types.UnionType), not typing.Union[X, Y]
                import functools
                import operator

                out = functools.reduce(operator.or_, [self.typ(x) for x in spec["items"]])
            else:
                out = typing.Union[tuple(self.typ(x) for x in spec["items"])]
        elif k == "listof":
            out = list[self.typ(spec["item"])]
        elif k == "dictof":
            out = dict[str, self.typ(spec["item"])]
        elif k == "iter":
            out = typing.Iterator[self.typ(spec["item"])]
        else:
            raise HarnessError(f"unknown annotation kind {k}")
        self.anns[aid] = out
        return out

    def fn(self, fid):
        if fid in self.fns:
            return self.fns[fid]
        spec = self.scn["fns"][fid]
        out = self._make_fn(fid, spec)
        self.fns[fid] = out
        return out

    def _decorate(self, spec, f):
        ntc = spec.get("ntc")
        if ntc == "below":
            f = typing.no_type_check(f)
        out = self._decorate0(spec, f)
        if ntc == "above":
            out = typing.no_type_check(out)
        return out

    def _decorate0(self, spec, f):
        style = spec["style"]
        if style == "plain":
            return f
        if style == "tconly":
            return TCS[spec["tc"]](f)
        if style == "none":
            return jaxtyped(f, typechecker=None)
        tc = TCS[spec["tc"]]
        if style == "new":
            return jaxtyped(f, typechecker=tc)
        if style == "old":
            return jaxtyped(tc(f))
        raise HarnessError(style)

    def _make_fn(self, fid, spec):
        kind = spec.get("kind", "fn")
        params = spec["params"]
        ns = {"_I": self.interp, "dataclasses": dataclasses, "__name__": "simworld"}
        sig = []
        defaults = spec.get("defaults", {})
        for name, aref in params:
            if isinstance(defaults.get(name), dict):  # a default VALUE given as a value spec (arrays): built once, like a real default
                ns[f"_D_{name}"] = build_value(defaults[name])
                dflt = f" = _D_{name}"
            else:
                dflt = f" = {defaults[name]!r}" if name in defaults else ""
            if aref is None:
                sig.append(name + dflt.replace(" = ", "="))
            else:
                ns[f"_A_{name}"] = self.typ(aref)
                sig.append(f"{name}: _A_{name}{dflt}")
        ret = ""
        if spec.get("ret") is not None:
            ns["_A_ret"] = self.typ(spec["ret"])
            ret = " -> _A_ret"
        names = [p[0] for p in params]
        argdict = "dict(" + ", ".join(f"{n}={n}" for n in names) + ")"
        if spec.get("kwonly") is not None and int(spec["kwonly"]) < len(sig):
            sig.insert(int(spec["kwonly"]), "*")  # the parameters from this index on are keyword-only
        if spec.get("posonly"):
            sig.insert(min(int(spec["posonly"]), len(sig)), "/")  # the leading parameters are positional-only
        pyname = py_name(self.scn, fid)
        if kind in ("fn", "gen", "coro", "inject", "wrapgen"):
            if kind in ("fn", "inject"):
                body = f"    return _I.body({fid!r}, {argdict})\n"
            elif kind == "wrapgen":
                # a generator function whose whole body runs in its first step; the callable that gets decorated is an ordinary
                # function (functools.wraps) that drives it eagerly -- a collect / priming decorator
                body = f"    yield _I.body({fid!r}, {argdict})\n"
            elif kind == "coro":
                # coroutine function: the call returns at once, the body runs when the coroutine is driven (op 'next')
                body = f"    for _seg in _I.gen_body({fid!r}, {argdict}):\n        pass\n    return None\n"
            else:
                body = f"    for _seg in _I.gen_body({fid!r}, {argdict}):\n        yield _seg\n"
            src = f"{'async ' if kind == 'coro' else ''}def {pyname}({', '.join(sig)}){ret}:\n{body}"
            exec(src, ns)
            f = ns[pyname]
            f.__module__ = "simworld"
            if kind == "wrapgen":
                import functools

                inner_gen = f

                @functools.wraps(inner_gen)
                def f(*a, **k):
                    return next(inner_gen(*a, **k))
            if kind == "inject":
                # a callable whose ADVERTISED signature (functools.wraps -> __wrapped__) differs from what it accepts: the
                # first parameter is supplied by the wrapper itself
                import functools

                inner, injected = f, build_value(spec["inject"])

                @functools.wraps(inner)
                def f(*a, **k):
                    return inner(injected, *a, **k)
            return self._decorate(spec, f)
        if kind in ("method", "cm_outer", "cm_inner", "sm_outer"):
            first = {"method": "self", "cm_outer": "cls", "cm_inner": "cls"}.get(kind)
            allsig = ([first] if first else []) + sig
            alldict = "dict(" + ", ".join(f"{n}={n}" for n in ([first] if first else []) + names) + ")"
            src = f"def m({', '.join(allsig)}){ret}:\n    return _I.body({fid!r}, {alldict})\n"
            exec(src, ns)
            f = ns["m"]
            f.__module__ = "simworld"
            f.__qualname__ = f"K_{pyname}.m"
            if kind == "method":
                m = self._decorate(spec, f)
            elif kind == "cm_outer":
                m = self._decorate(spec, classmethod(f))
            elif kind == "cm_inner":
                m = classmethod(self._decorate(spec, f))
            else:
                m = self._decorate(spec, staticmethod(f))
            K = type(f"K_{pyname}", (), {"m": m, "__repr__": lambda self: f"K_{fid}()", "__module__": "simworld"})
            return K
        if kind == "dc":
            fields = "".join(f"    {s if ':' in s else s + ': object'}\n" for s in sig) or "    pass\n"
            selfdict = "dict(" + ", ".join(f"{n}=self.{n}" for n in names) + ")"
            src = (
                f"@dataclasses.dataclass\nclass {pyname}:\n{fields}"
                f"    def __post_init__(self):\n        _I.body({fid!r}, {selfdict})\n"
                f"    def __repr__(self):\n        return '{fid}(...)'\n"
            )
            exec(src, ns)
            cls = ns[pyname]
            cls.__module__ = "simworld"
            return self._decorate(spec, cls)
        raise HarnessError(kind)


# ------------------------------------------------------------------------------------------
# values

_POOL = __import__("threading").local()


def reset_pool():
    _POOL.objs = {}


def build_value(v, frame=None, memo=None):
    if memo is None:
        memo = {}
    t = v["t"]
    if t == "pool":  # the SAME object across operations of one simulated thread (identity-keyed caches must not matter)
        objs = getattr(_POOL, "objs", None)
        if objs is None:
            objs = _POOL.objs = {}
        key = json.dumps(v["v"], sort_keys=True)
        if key not in objs:
            objs[key] = build_value(v["v"], frame, memo)
        return objs[key]
    if t == "shared":  # the SAME object at several positions of one value
        if v["key"] not in memo:
            memo[v["key"]] = build_value(v["v"], frame, memo)
        return memo[v["key"]]
    if t == "np":
        d = v.get("d", "float32")
        return np.zeros(tuple(v["s"]), dtype=STRUCT_DTYPES.get(d, d))
    if t == "duck":
        if v.get("badrepr"):
            return seams.BadReprDuck(v["s"], v.get("d", "float32"))
        return Duck(v["s"], v.get("d", "float32"))
    if t == "mduck":
        return MDuckSub(v["s"], v.get("d", "float32"))
    if t == "int":
        return v["v"]
    if t == "str":
        return v["v"]
    if t == "float":
        return float(v["v"])
    if t == "py":
        return {"float": 1.5, "int": 3, "bool": True}[v["k"]]
    if t == "none":
        return None
    if t == "leaf":
        return LeafSub()
    if t == "fmt":
        return FmtObj(v["v"])
    if t == "tuple":
        return tuple(build_value(c, frame, memo) for c in v["c"])
    if t == "list":
        return [build_value(c, frame, memo) for c in v["c"]]
    if t == "dict":
        return {k: build_value(c, frame, memo) for k, c in v["c"]}
    if t == "nt":
        return NT(*[build_value(c, frame, memo) for c in v["c"]])
    if t == "node":
        return Node([build_value(c, frame, memo) for c in v["c"]])
    if t == "arg":
        return frame["args"][v["n"]]
    if t == "omit":
        return None
    raise HarnessError(f"unknown value kind {t}")


_KEPT = __import__("threading").local()


def keep_exceptions(on):
    """While on, every exception that reaches the harness stays referenced (as with a logger, `pytest.raises(...) as excinfo`,
    sys.last_exc): its traceback keeps the frames -- and suspended generators -- of the failed check alive."""
    _KEPT.items = [] if on else None


def exc_outcome(e):
    """Canonical record of an exception that reached the harness."""
    kept = getattr(_KEPT, "items", None)
    if kept is not None:
        kept.append(e)
    name = type(e).__name__
    msg = norm_text(str(e))
    if name == "TypeCheckError":
        return {"exc": name, "msg": msg, "cause": e.__cause__ is not None, "is_typeerror": isinstance(e, TypeError),
                "suppress_context": bool(e.__suppress_context__)}
    if len(msg) > 300:
        msg = msg[:300]
    return {"exc": name, "msg": msg}


class _Raise(Exception):
    """Internal: carries the exit of a block body (never escapes the interpreter)."""


# ------------------------------------------------------------------------------------------
# interpreter

class ThreadRun:
    def __init__(self, tid):
        self.tid = tid
        self.transcript = []
        self.frames = []  # harness view of the block stack: dicts(kind, args, fid)
        self.vars = {}
        self.pending = None
        self.gen_pending = {}
        self.current_next = None
        self.body_runs = 0
        self.clocks = {}  # path -> (global event index at begin, at end)
        self.last_call = None


class Interp:
    """One per run.  observer: object with optional pre(run, op, path) / post(run, op, path, out)."""

    def __init__(self, scn, observer=None):
        self.scn = scn
        self.world = World(scn, self)
        self.observer = observer
        self._tl = __import__("threading").local()
        self.clock = 0  # simulator's global event sequence number (only one thread runs at a time)
        self.ctx_objs = {}

    # -- per thread
    def start_thread(self, tid):
        r = ThreadRun(tid)
        self._tl.run = r
        return r

    @property
    def run(self):
        return self._tl.run

    def rec(self, path, kind, out):
        self.run.transcript.append([path, kind, out])

    # -- program execution
    def exec_ops(self, ops, path):
        for i, op in enumerate(ops):
            self.exec_op(op, f"{path}.{i}" if path else str(i))

    def exec_op(self, op, path):
        run = self.run
        obs = self.observer
        if obs is not None and hasattr(obs, "pre"):
            obs.pre(self, run, op, path)
        sc = seams.state().sched
        if sc is not None:
            sc.op_begin(op.get("_id", path))
        self.clock += 1
        t0 = self.clock
        re_key = None
        if op.get("reentry"):
            # user code called by jaxtyping during THIS operation (the k-th hit of a call-out site from now on) calls back into
            # jaxtyping: the nested operation runs in the same thread and context, in the middle of the outer check
            st_ = seams.state()
            re = op["reentry"]
            re_key = (re["site"], st_.counts.get(re["site"], 0) + re["k"])
            st_.reentry[re_key] = lambda: self.exec_op(re["op"], path + ".re")
        try:
            out = getattr(self, "op_" + op["op"])(op, path)
        finally:
            if re_key is not None:
                seams.state().reentry.pop(re_key, None)
            if sc is not None:
                sc.op_end()
            self.clock += 1
            run.clocks[path] = (t0, self.clock)
        self.rec(path, op["op"], out)
        if obs is not None and hasattr(obs, "post"):
            obs.post(self, run, op, path, out)
        return out

    def _frame(self):
        return self.run.frames[-1] if self.run.frames else None

    # -- leaf operations
    def op_arr(self, op, path):
        ann = self.world.ann(op["ann"])
        val = build_value(op["val"], self._frame())
        try:
            if typing.get_origin(ann) is typing.Union:
                # (isinstance on a typing.Union goes through issubclass; a typechecker tries the members one by one, as here)
                return any([bool(isinstance(val, m)) for m in typing.get_args(ann)][:])
            return bool(isinstance(val, ann))
        except BaseException as e:
            return exc_outcome(e)

    op_tree = op_arr

    def op_obs(self, op, path):
        try:
            print_bindings()
        except BaseException as e:
            seams.take_output()
            return exc_outcome(e)
        return seams.take_output()

    def op_argprobe(self, op, path):
        """Black-box probe of the {argument} memo: is <name> visible with the value the innermost
        block was called with?  Returns [visible-with-right-value, visible-with-wrong-value]."""
        fr = self._frame()
        name = op["name"]
        ann_ok = jaxtyping.Shaped[np.ndarray, "{" + name + "}"]
        res = []
        for delta in (0, 1):
            k = op["k"] + delta
            try:
                with seams.quiet():
                    res.append(bool(isinstance(np.zeros((k,)), ann_ok)))
            except BaseException as e:
                res.append({"exc": type(e).__name__})
        return res

    def op_build(self, op, path):
        """Build an annotation at run time (C09 structure strings, C12 decorations)."""
        try:
            spec = op["spec"]
            if spec["k"] == "tree":
                leaf = self.world.typ(spec["leaf"])
                PyTree[leaf, spec["struct"]]
            elif spec["k"] == "arr":
                getattr(jaxtyping, spec["dtype"])[ATYPES[spec["atype"]], spec["dims"]]
            return "built"
        except BaseException as e:
            return exc_outcome(e)

    def op_decorate(self, op, path):
        try:
            self.world.fns.pop(op["fn"], None)
            self.world.fn(op["fn"])
            return "decorated"
        except BaseException as e:
            return exc_outcome(e)

    def op_pickle(self, op, path):
        import copy
        import pickle

        ann = self.world.ann(op["ann"])
        try:
            how = op.get("how", "pickle")
            if how == "pickle":
                out = pickle.loads(pickle.dumps(ann))
            elif how == "copy":
                out = copy.copy(ann)
            else:
                out = copy.deepcopy(ann)
            return "ok" if out is not None else "none"
        except BaseException as e:
            return exc_outcome(e)

    def op_hook(self, op, path):
        """install_import_hook + first import of a module (whose body is a call-out) + uninstall."""
        import importlib
        import sys

        name = op["module"]
        sys.modules.pop(name, None)
        try:
            mgr = jaxtyping.install_import_hook(name, op.get("checker"))
            try:
                if op.get("with", True):
                    with mgr:
                        importlib.import_module(name)
                else:
                    importlib.import_module(name)
            finally:
                mgr.uninstall()
            return "imported"
        except BaseException as e:
            return exc_outcome(e)
        finally:
            sys.modules.pop(name, None)

    def op_exhaust(self, op, path):
        """Recurse through open contexts until the interpreter's recursion limit is hit (RecursionError is caught here, at
        the outermost level).  The limit is set just above the current depth so that it is reached after ~40 levels; 'slack'
        shifts the alignment of the limit relative to the frames of one level."""
        import sys

        depth = 0
        f = sys._getframe()
        while f is not None:
            depth += 1
            f = f.f_back
        old = sys.getrecursionlimit()
        kind = op["kind"]

        def rec_ctx():
            with jaxtyped("context"):
                rec_ctx()

        if kind == "none":
            @jaxtyped(typechecker=None)
            def rec_fn(x):
                return rec_fn(x)
        elif kind == "new":
            @jaxtyped(typechecker=TCS["min"])
            def rec_fn(x):
                return rec_fn(x)
        try:
            sys.setrecursionlimit(depth + 120 + op["slack"])
            try:
                if kind == "ctx":
                    rec_ctx()
                else:
                    rec_fn(1)
                return "returned"
            except RecursionError:
                return "RecursionError"
            except BaseException as e:
                return exc_outcome(e)
        finally:
            sys.setrecursionlimit(old)

    def op_hookmod(self, op, path):
        """install_import_hook(name, checker) + first import of a fresh copy of the module + uninstall; the module object is
        kept for later hookcall operations (C19: a hooked module must follow the switch at CALL time)."""
        import importlib
        import sys

        name = op["module"]
        sys.modules.pop(name, None)
        try:
            with jaxtyping.install_import_hook(name, op.get("checker")):
                self.run.vars["mod:" + name] = importlib.import_module(name)
            return "imported"
        except BaseException as e:
            return exc_outcome(e)
        finally:
            sys.modules.pop(name, None)

    def op_hookcall(self, op, path):
        m = self.run.vars.get("mod:" + op["module"])
        if m is None:
            return "nomodule"
        try:
            return {"ret": m.f(np.zeros((4 if op.get("bad") else 3,), "float32"))}
        except BaseException as e:
            return exc_outcome(e)

    def op_mark_ntc(self, op, path):
        """typing.no_type_check applied to an already decorated (and possibly already called) callable."""
        try:
            f = self.world.fn(op["fn"])
            out = typing.no_type_check(f)
            self.world.fns[op["fn"]] = out
            return "marked"
        except BaseException as e:
            return exc_outcome(e)

    def op_toggle(self, op, path):
        try:
            jaxtyping.config.update(op["item"], op["value"])
            return "ok"
        except BaseException as e:
            return exc_outcome(e)

    # -- blocks
    def _run_body(self, ops, exit_, path):
        self.exec_ops(ops, path)
        if exit_ != "ret" and exit_ is not None:
            raise seams.EXC[exit_[1]](f"exit of block {path}")

    def op_ctx(self, op, path):
        run = self.run
        run.frames.append({"kind": "ctx", "args": {}, "fid": None})
        try:
            if op.get("obj") is not None:
                # a context-manager OBJECT that the program keeps and enters again (sequentially, re-entrantly, and -- for keys
                # starting with "shared" -- from several threads): `ctx = jaxtyped("context")` at module level is ordinary use
                store = self.ctx_objs if str(op["obj"]).startswith("shared") else run.vars
                key = "ctxobj:" + str(op["obj"])
                cm = store.get(key)
                if cm is None:
                    cm = store[key] = jaxtyped("context")
            else:
                cm = jaxtyped("context")
            with cm:
                if self.observer is not None and hasattr(self.observer, "entered"):
                    self.observer.entered(self, run, op, path)
                self._run_body(op["body"], op.get("exit", "ret"), path)
            return "ret"
        except BaseException as e:
            return exc_outcome(e)
        finally:
            run.frames.pop()

    def body(self, fid, args):
        """Called from inside the generated function bodies."""
        run = self.run
        hit("body")
        op, path = run.pending
        run.pending = None
        run.body_runs += 1
        run.frames.append({"kind": "call", "args": args, "fid": fid})
        try:
            if self.observer is not None and hasattr(self.observer, "entered"):
                self.observer.entered(self, run, op, path)
            self._run_body(op["body"], op.get("exit", "ret"), path)
            if self.observer is not None and hasattr(self.observer, "leaving"):
                self.observer.leaving(self, run, op, path)
            rv = op.get("ret")
            return None if rv is None else build_value(rv, run.frames[-1])
        finally:
            run.frames.pop()

    def gen_body(self, fid, args):
        run = self.run
        op, path = run.gen_pending.pop(run.current_next)
        run.body_runs += 1
        seg = []
        n = 0
        for i, o in enumerate(op["body"] + [None]):
            if o is None or o["op"] == "yield":
                frame = {"kind": "gen", "args": args, "fid": fid}
                self.run.frames.append(frame)
                try:
                    self.exec_ops(seg, f"{path}.g{n}")
                finally:
                    self.run.frames.pop()
                seg = []
                n += 1
                if o is not None:
                    yield n
            else:
                seg.append(o)
        ex = op.get("exit", "ret")
        if ex != "ret":
            raise seams.EXC[ex[1]](f"exit of generator {path}")

    def op_call(self, op, path):
        run = self.run
        if op.get("_twin_of"):
            # the plain twin re-issues the PREVIOUS call (same arguments, body, return value) on another callable:
            # derived at run time so that the minimiser cannot make the two diverge
            if run.last_call is None:
                return {"skipped": "no call to be the twin of"}
            op = dict(run.last_call, fn="P" + run.last_call["fn"][1:], _twin_of=True)
        else:
            run.last_call = op
        spec = self.scn["fns"][op["fn"]]
        kind = spec.get("kind", "fn")
        try:
            target = self.world.fn(op["fn"])
        except BaseException as e:
            return {"exc": type(e).__name__, "stage": "decorate"}
        fr = self._frame()
        args = [build_value(a, fr) for a in op["args"]]
        names = [p[0] for p in spec["params"]]
        if kind in ("method", "cm_inner", "cm_outer", "sm_outer"):
            inst = target()
            target = inst.m if kind == "method" else getattr(type(inst), "m")
        pos, kw = [], {}
        kwmode = op.get("kw", 0)
        omitted = False
        for i, (n, a) in enumerate(zip(names, op["args"])):
            if a.get("t") == "omit":  # parameter left to its default value
                omitted = True
                continue
            a = args[i]
            if i < int(spec.get("posonly") or 0) and not omitted:
                pos.append(a)
            elif spec.get("kwonly") is not None and i >= int(spec["kwonly"]):
                kw[n] = a
            elif omitted or kwmode == 2 or (kwmode == 1 and i >= len(names) // 2):
                kw[n] = a
            else:
                pos.append(a)
        for extra in op.get("extra_kw", []):
            kw[extra] = 0  # non-binding call
        if len(args) > len(names):
            pos.extend(args[len(names):])
        run.pending = (op, path)
        before = run.body_runs
        try:
            res = target(*pos, **kw)
            out = {"ret": type(res).__name__}
            if op.get("store"):
                run.vars[op["store"]] = res
                if kind in ("gen", "coro"):
                    run.gen_pending[op["store"]] = (op, path)
        except BaseException as e:
            out = exc_outcome(e)
        run.pending = None
        out["body_runs"] = run.body_runs - before
        return out

    def op_next(self, op, path):
        g = self.run.vars.get(op["var"])
        if g is None:
            return "novar"
        self.run.current_next = op["var"]
        try:
            if hasattr(g, "send") and not hasattr(g, "__next__"):
                return {"yielded": g.send(None)}  # coroutine object: drive it one step
            return {"yielded": next(g)}
        except StopIteration:
            return "stop"
        except BaseException as e:
            return exc_outcome(e)

    def op_close(self, op, path):
        g = self.run.vars.pop(op["var"], None)
        if g is None:
            return "novar"
        try:
            g.close()
            return "closed"
        except BaseException as e:
            return exc_outcome(e)


# ------------------------------------------------------------------------------------------
# running programs

def warm_up():
    """Untraced single-threaded warm-up: forces the lazy imports on jaxtyping's paths (a traced thread
    parked while holding a module import lock would wedge the baton scheduler)."""
    from jaxtyping import Float

    warnings.simplefilter("ignore")
    import jaxtyping._typeguard  # noqa: F401

    try:
        import jax._src.traceback_util  # noqa: F401
    except Exception:
        pass
    st = seams.install(seams.SeamState())
    seams.install_router()
    A = Float[np.ndarray, "a"]
    T = PyTree[A, "T"]
    with jaxtyped("context"):
        isinstance((np.zeros(3),), T)
        print_bindings()
    for tc in TCS.values():

        @jaxtyped(typechecker=tc)
        def f(x: A, y: PyTree[int]) -> A:
            return x

        f(np.zeros(3), 1)
        try:
            f(np.zeros((3, 3)), 1)
        except Exception:
            pass
        try:
            f(np.zeros(3), "s")
        except Exception:
            pass
    st.out.clear()
    seams.uninstall()


def run_threads(scn, programs, sched_spec, rnd, observer=None, plans=None, yield_on_seams=True,
                opcode_storage=False, watchdog_s=60.0, build=True, interp=None, thread_init=None, opcode_all=False):
    """Execute the given per-thread programs under the given schedule policy.
    Returns (interp, runs, scheduler)."""
    from . import sched as S

    if interp is None:
        interp = Interp(scn, observer)
        seams.install(seams.SeamState())  # decoration-time call-outs (tc.decorate) are quiet here
        seams.state().enabled = False
        interp.world.build()
        seams.uninstall()
    n = len(programs)
    pol = S.make_policy(sched_spec, n, rnd, expected_yields=scn.get("_expected_yields", 4000))
    sc = S.Scheduler(n, pol, opcode_storage=opcode_storage, watchdog_s=watchdog_s, opcode_all=opcode_all)
    sc.inherit_context = bool(scn.get("inherit_context"))
    runs = [None] * n
    states = [None] * n

    def mk(i):
        def go():
            st = seams.install(seams.SeamState(plan=(plans[i] if plans else None), sched=sc,
                                               yield_on_seams=yield_on_seams))
            states[i] = st
            r = interp.start_thread(i)
            runs[i] = r
            reset_pool()
            try:
                if thread_init is not None:
                    thread_init(i)
                interp.exec_ops(programs[i], "")
            finally:
                r.final = snapshot()
                seams.uninstall()

        return go

    sc.run([mk(i) for i in range(n)])
    return interp, runs, sc, states


class Direct:
    """Single-threaded execution in the calling thread (no scheduler): used by the fault-enumeration
    checks, which run hundreds of short variants per scenario."""

    def __init__(self, scn, observer=None):
        self.scn = scn
        self.interp = Interp(scn, observer)
        self.state = seams.install(seams.SeamState())
        self.state.enabled = False
        self.interp.world.build()
        self.state.enabled = True
        self.run = self.interp.start_thread(0)
        reset_pool()

    def reset_faults(self, plan=None):
        self.state.plan = dict(plan or {})
        self.state.counts = {}
        self.state.fired = []

    def close(self):
        seams.uninstall()


def in_fresh_thread(fn, *args, timeout=170.0):
    """Run fn(*args) in a new real thread and return its result.  Exceptions that cross C frames of
    jaxlib's tree_flatten leak C-recursion depth in the thread state (observed: RecursionError at a
    shallow stack after a few hundred injected BaseExceptions); a fresh thread state per scenario keeps
    the simulator itself healthy."""
    import threading

    box = {}

    def go():
        try:
            box["r"] = fn(*args)
        except BaseException as e:  # re-raised in the caller
            box["e"] = e

    t = threading.Thread(target=go, daemon=True)
    t.start()
    t.join(timeout)
    if t.is_alive():
        raise HarnessError("scenario thread did not finish")
    if "e" in box:
        raise box["e"]
    return box["r"]
