"""Process entry point of ./check.  Everything -- including the import of the tree under test -- happens inside one
try block, so that the only way to exit 1 is a verified VIOLATION line printed by the runner: any other failure (the tree
under test does not import, a harness bug, a dead worker) is a HARNESS-ERROR with exit 2, never 0 and never 1."""

import os
import sys
import traceback


def _main():
    rc = 2
    try:
        from . import core
        from . import main as runner

        try:
            with core.ScratchBase():
                rc = runner.main()
        except core.HarnessError as e:
            print(f"HARNESS-ERROR: {e}")
            rc = 2
    except SystemExit as e:  # argparse usage errors etc.
        rc = e.code if isinstance(e.code, int) and e.code not in (0, 1) else (0 if e.code in (0, None) else 2)
    except BaseException as e:
        traceback.print_exc()
        print(f"HARNESS-ERROR: {type(e).__name__}: {e}")
        rc = 2
    sys.stdout.flush()
    sys.stderr.flush()
    os._exit(rc if rc in (0, 1, 2) else 2)


if __name__ == "__main__":
    _main()
