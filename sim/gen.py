"""Generators of scenarios' raw material: dim strings from the documented grammar, annotation specs,
values chosen relative to a preferred size assignment, trees, function specs and operation trees.
Everything produced is plain JSON-able data."""

import re

_BRACES = re.compile(r"\{[^}]*\}")
NAMES = ("a", "b", "c", "n", "m")
SIZES = (0, 1, 2, 3, 4, 5, 7)
SYMBOLIC = ("a+1", "2*a", "a-1", "a*b", "min(a,b)", "a+b")
FLOAT_DTYPES = ("float32", "float64", "float16")
INT_DTYPES = ("int32", "int64", "int8")
CATEGORIES = {
    "Float": FLOAT_DTYPES,
    "Int": INT_DTYPES,
    "Shaped": FLOAT_DTYPES + INT_DTYPES + ("bool",),
    "Num": FLOAT_DTYPES + INT_DTYPES,
    "Bool": ("bool",),
    # two numpy structured dtypes with their own categories (jaxtyping.make_numpy_struct_dtype): both have scalar type
    # np.void, so anything keyed by the scalar type alone confuses them
    "Struct1": ("struct1",),
    "Struct2": ("struct2",),
}
ALL_DTYPES = FLOAT_DTYPES + INT_DTYPES + ("bool",)


def tok_text(t):
    k = t["kind"]
    if k == "anonvar":
        return "..." if t.get("dots", True) else "*_"
    mods = ""
    if t.get("b"):
        mods += "#"
    if k in ("var",):
        mods += "*"
    if t.get("q"):
        mods += "?"
    if t.get("order") == 1:
        mods = mods[::-1]
    doc = t.get("doc") or ""
    if k == "named" or k == "var":
        return mods + doc + t["name"]
    if k == "anon":
        return "_" + (t.get("name") or "")
    if k == "fixed":
        return mods + doc + str(t["size"])
    if k == "sym":
        return mods + t["expr"]
    raise ValueError(k)


def dims_text(tokens):
    return " ".join(tok_text(t) for t in tokens)


class Gen:
    def __init__(self, rnd, names=NAMES[:3], sizes=(1, 2, 3, 4), var_names=("v", "w"), allow_sym=True,
                 allow_q=False, max_tokens=4, sym_args=(), sym_exprs=None):
        self.rnd = rnd
        self.names = names
        self.sizes = sizes
        self.var_names = var_names
        self.allow_sym = allow_sym
        self.allow_q = allow_q
        self.max_tokens = max_tokens
        self.sym_args = sym_args
        self.sym_exprs = sym_exprs
        self.anns = {}
        self.fns = {}
        self._ann_index = {}

    # -- dims ---------------------------------------------------------------------------------
    def token(self, allow_var, q_ok=False):
        r = self.rnd
        x = r.random()
        if allow_var and x < 0.22:
            if r.random() < 0.25:
                return {"kind": "anonvar", "dots": r.random() < 0.7}
            return {"kind": "var", "name": r.choice(self.var_names), "b": r.random() < 0.4,
                    "q": q_ok and r.random() < 0.3, "order": r.randrange(2)}
        if x < 0.62:
            return {"kind": "named", "name": r.choice(self.names), "b": r.random() < 0.25,
                    "q": q_ok and r.random() < 0.5, "order": r.randrange(2),
                    "doc": "d=" if r.random() < 0.05 else ""}
        if x < 0.78:
            return {"kind": "fixed", "size": r.choice(self.sizes), "b": r.random() < 0.3,
                    "doc": "d=" if r.random() < 0.05 else ""}
        if x < 0.86:
            return {"kind": "anon", "name": r.choice(("", "", "zz"))}
        if self.allow_sym:
            exprs = self.sym_exprs or (list(SYMBOLIC) + ["{" + a + "}" for a in self.sym_args])
            return {"kind": "sym", "expr": r.choice(exprs), "b": r.random() < 0.2}
        return {"kind": "named", "name": r.choice(self.names), "b": False, "q": False}

    def dims(self, q_ok=False, min_tokens=0):
        r = self.rnd
        if self.allow_sym and not self.sym_exprs and self.max_tokens >= 4 and len(self.names) >= 2 and r.random() < 0.05:
            # chain: a symbolic axis, then a name bound for the first time INSIDE this annotation, then a symbolic axis using it
            # (the namespace of the second expression must see the binding made between the two)
            x, y = r.sample(list(self.names), 2)
            toks = [{"kind": "named", "name": x, "b": False, "q": False, "order": 0, "doc": ""},
                    {"kind": "sym", "expr": r.choice((f"{x}+1", f"2*{x}", f"{x}-1")), "b": False},
                    {"kind": "named", "name": y, "b": False, "q": False, "order": 0, "doc": ""},
                    {"kind": "sym", "expr": r.choice((f"{y}+1", f"{x}*{y}", f"{x}+{y}", f"min({x},{y})")), "b": False}]
            if r.random() < 0.3:
                toks = toks[1:]  # x bound by an earlier annotation (or unbound: AnnotationError)
            return toks
        n = r.randrange(min_tokens, self.max_tokens + 1)
        toks = []
        have_var = False
        for _ in range(n):
            t = self.token(not have_var, q_ok)
            if t["kind"] in ("var", "anonvar"):
                have_var = True
            toks.append(t)
        return toks

    # -- annotations --------------------------------------------------------------------------
    def add_ann(self, spec):
        key = repr(sorted(spec.items()))
        if key in self._ann_index:
            return self._ann_index[key]
        aid = f"A{len(self.anns)}"
        self.anns[aid] = spec
        self._ann_index[key] = aid
        return aid

    def arr_ann(self, atype=None, q_ok=False, dtype=None, toks=None, min_tokens=0):
        r = self.rnd
        toks = self.dims(q_ok, min_tokens) if toks is None else toks
        spec = {
            "k": "arr",
            "dtype": dtype or r.choice(("Float", "Float", "Shaped", "Int", "Num")),
            "atype": atype or "np",
            "dims": dims_text(toks),
            "toks": toks,
        }
        if toks and "+" not in spec["atype"] and r.random() < 0.12:
            # built in the nested spelling Outer[Inner[T, toks[k:]], toks[:k]] (same meaning; see ctxsim.World.ann)
            spec["split"] = [r.randrange(0, len(toks) + 1), r.choice(("shaped", "same"))]
        return self.add_ann(spec)

    # -- values -------------------------------------------------------------------------------
    def shape_for(self, toks, pref, p_bad=0.15, p_rank=0.06):
        """A shape that matches the tokens under the preferred assignment, perturbed with small
        probabilities so that late mismatches and rank errors occur."""
        r = self.rnd
        shape = []
        for t in toks:
            k = t["kind"]
            if k == "named":
                s = pref.get(t["name"], 2)
            elif k == "fixed":
                s = t["size"]
            elif k == "anon":
                s = r.choice(self.sizes)
            elif k == "sym":
                try:
                    e = _BRACES.sub(lambda m: str(pref.get(m.group(0), 2)), t["expr"])
                    s = int(eval(e, {"min": min, "max": max}, dict(pref)))
                    if s < 0:
                        s = 0
                except Exception:
                    s = 2
            elif k == "var":
                v = pref.get("*" + t["name"], (2,))
                if t.get("b") and r.random() < 0.4 and len(v) > 0:
                    v = tuple(1 if r.random() < 0.5 else x for x in v[r.randrange(len(v) + 1):])
                if r.random() < p_bad:
                    v = tuple(r.choice(self.sizes) for _ in range(r.randrange(0, 3)))
                shape.extend(v)
                continue
            elif k == "anonvar":
                shape.extend(r.choice(self.sizes) for _ in range(r.randrange(0, 3)))
                continue
            if t.get("b") and r.random() < 0.3:
                s = 1
            if r.random() < p_bad:
                s = r.choice(self.sizes)
            shape.append(s)
        if r.random() < p_rank:
            if shape and r.random() < 0.5:
                shape.pop(r.randrange(len(shape)))
            else:
                shape.insert(r.randrange(len(shape) + 1), r.choice(self.sizes))
        return shape

    def dtype_for(self, cat, p_bad=0.08):
        r = self.rnd
        if r.random() < p_bad:
            return r.choice(ALL_DTYPES)
        return r.choice(CATEGORIES[cat])

    def arr_val(self, aid, pref, p_bad=0.15, vt=None):
        spec = self.anns[aid]
        r = self.rnd
        at = spec["atype"]
        if vt is None:
            vt = {"np": "np", "duck": "duck", "mduck": "mduck", "any": r.choice(("np", "duck"))}[at]
            if r.random() < 0.03:
                vt = "str"
        if vt == "str":
            return {"t": "str", "v": "notanarray"}
        return {"t": vt, "s": self.shape_for(spec["toks"], pref, p_bad), "d": self.dtype_for(spec["dtype"])}

    # -- trees --------------------------------------------------------------------------------
    def tree_shape(self, depth, max_leaves, node_ok=True):
        """Random container skeleton: nested lists where 'L' marks a leaf."""
        r = self.rnd
        budget = [max_leaves]

        def go(d):
            if d == 0 or r.random() < 0.35 or budget[0] <= 0:
                budget[0] -= 1
                return "L"
            kinds = ["tuple", "list", "dict", "nt"] + (["node"] if node_ok else [])
            k = r.choice(kinds)
            if k == "nt":
                return {"t": "nt", "c": [go(d - 1), go(d - 1)]}
            n = r.randrange(0, 4)
            if r.random() < 0.07:
                return {"t": "none"}
            if k == "dict":
                keys = r.sample(["k0", "k1", "k2", "k3"], n)
                return {"t": "dict", "c": [[kk, go(d - 1)] for kk in sorted(keys)]}
            return {"t": k, "c": [go(d - 1) for _ in range(n)]}

        return go(depth)

    def fill_tree(self, skel, leaf_fn):
        idx = [0]

        def go(s):
            if s == "L":
                v = leaf_fn(idx[0])
                idx[0] += 1
                return v
            if s["t"] == "none":
                return {"t": "none"}
            if s["t"] == "dict":
                return {"t": "dict", "c": [[k, go(c)] for k, c in s["c"]]}
            return {"t": s["t"], "c": [go(c) for c in s["c"]]}

        return go(skel)


def count_leaves(skel):
    if skel == "L":
        return 1
    if skel["t"] == "none":
        return 0
    if skel["t"] == "dict":
        return sum(count_leaves(c) for _, c in skel["c"])
    return sum(count_leaves(c) for c in skel["c"])


def assign_ids(threads):
    """Give every operation a stable id (schedule coordinates refer to it)."""
    for t, prog in enumerate(threads):
        c = [0]

        def walk(ops):
            for op in ops:
                op["_id"] = f"t{t}.{c[0]}"
                c[0] += 1
                for k in ("body",):
                    if isinstance(op.get(k), list):
                        walk(op[k])

        walk(prog)
    return threads
