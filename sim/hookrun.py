"""One hooksim run in a REAL fresh interpreter (cross-validation of the soft restart): python -m sim.hookrun <root>"""
import json
import os
import sys

from . import hooksim
from .core import Stats


def main():
    root = sys.argv[1]
    with open(os.path.join(root, "_run.json")) as f:
        spec = json.load(f)
    scn = spec["scn"]
    hooksim._BASE = os.path.dirname(root)
    hooksim.seams.install_router()
    world = hooksim.World(scn, root)
    stats = Stats()
    probs = hooksim.run_one(world, scn["runs"][spec["run_index"]], scn.get("bytecode", True), stats)
    world.save()
    print("HOOKRUN " + json.dumps({"problems": probs, "observations": world.last_observations, "stats": stats.c}, default=str))


if __name__ == "__main__":
    main()
