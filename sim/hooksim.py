"""hooksim: deterministic simulator of import-hook histories.  Real importlib, real files in a temporary
directory, the real jaxtyping hook; simulated are the clock (source mtimes are stamped from a simulated
clock with os.utime), the process boundary (soft restart: sys.modules / meta_path / Typechecker.lookup /
importer caches purged) and the disk faults (failed, lost, torn bytecode writes; crash at the k-th disk
event).  A history is a list of runs; a run is a list of operations; every module that gets loaded is
observed (instrumented? by which checker? which source version's code ran?) and compared with a small
model of what the current hook configuration and the current source call for."""

import atexit
import errno
import importlib
import importlib._bootstrap_external as _be
import json
import os
import shutil
import sys
import tempfile

import jaxtyping
import jaxtyping._import_hook as _ih

from . import hsim_spy, seams
from .core import HarnessError

MODULES = ["foo", "foo.sub", "foo.sub.leaf", "foo.util", "foobar", "foo_bar", "fo", "bar", "bar.baz", "foox", "foox.sub",
           "chk", "chk.core", "nsp.inner"]  # nsp is a NAMESPACE package (PEP 420: a directory without __init__.py)
PKGS = {"foo", "foo.sub", "foo_bar", "bar", "foox", "chk"}
TOPS = ["foo", "foobar", "foo_bar", "fo", "bar", "foox", "chk", "nsp"]
# 'ca'/'cb': a PROJECT-LOCAL typechecker package living in the forest itself (first imported when an instrumented
# module is decorated), which later runs may hook as well
CHECKERS = {"a": "sim.hsim_spy.a", "b": "sim.hsim_spy.b", "none": None, "ca": "chk.a", "cb": "chk.b"}
CANON = {"a": "a", "b": "b", "none": "none", "ca": "a", "cb": "b"}

_ORIG_CFS = _be.cache_from_source
_ORIG_WA = _be._write_atomic
_ORIG_IO = _be._io
_BASE = None
_COUNTER = [0]


def worker_init():
    global _BASE
    import warnings

    warnings.simplefilter("ignore")
    from .core import scratch_dir

    _BASE = scratch_dir("jtv_hook_")
    seams.install_router()
    # warm-up: one hooked import and one plain import, so that every lazily initialised path of the hook (and of importlib)
    # has run once before the first scenario -- yield counts of concurrent-import sections then do not depend on whether a
    # scenario is the first one of its process
    warm = os.path.join(_BASE, "warm")
    os.makedirs(warm, exist_ok=True)
    for nm in ("jtv_warm_a", "jtv_warm_b"):
        with open(os.path.join(warm, nm + ".py"), "w") as f:
            f.write("def f(x: int) -> int:\n    return x\n\nclass K:\n    def m(self, y: int) -> int:\n        return y\n")
    sys.path.insert(0, warm)
    importlib.invalidate_caches()
    old_dwb = sys.dont_write_bytecode
    try:
        for dwb in (True, False):
            sys.dont_write_bytecode = dwb
            for nm in ("jtv_warm_a", "jtv_warm_b"):
                sys.modules.pop(nm, None)
            with jaxtyping.install_import_hook("jtv_warm_a", "sim.hsim_spy.a"):
                importlib.import_module("jtv_warm_a")
                importlib.import_module("jtv_warm_b")
    finally:
        sys.dont_write_bytecode = old_dwb
        sys.path.remove(warm)
        for nm in ("jtv_warm_a", "jtv_warm_b"):
            sys.modules.pop(nm, None)
        sys.path_importer_cache.pop(warm, None)
        importlib.invalidate_caches()
        hsim_spy.LOG.clear()
        try:
            _ih.Typechecker.lookup.clear()
        except AttributeError:
            pass


def mod_file(root, name):
    parts = name.split(".")
    if name in PKGS:
        return os.path.join(root, *parts, "__init__.py")
    return os.path.join(root, *parts) + ".py"


def source(name, version, imports, lazy, pad):
    lines = [f'"""module {name}"""', f"VERSION = {version}", "import sim.hsim_spy as _spy",
             f"_spy.executed(__name__, {version})"]
    if name == "chk":
        lines += ["a = _spy.a", "b = _spy.b", "import chk.core"]
    for t in imports:
        lines.append(f"import {t}")
    lines += ["", "def f(x: int) -> int:", "    return x", "", "def which():", f"    return {version}", ""]
    if lazy:
        lines += ["def lazy():", f"    import {lazy}", f"    return {lazy}.which()", ""]
    lines += ["# pad " + "x" * pad] if pad else []
    lines += [f"_spy.completed(__name__, {version})"]
    return "\n".join(lines) + "\n"


class World:
    def __init__(self, scn, root=None):
        self.imports = scn["forest"]["imports"]
        self.lazy = scn["forest"]["lazy"]
        self.torn = False
        if root is not None and os.path.exists(os.path.join(root, "_world.json")):
            # re-opened by a real subprocess (cross-validation mode): state travels in a file
            self.root = root
            with open(os.path.join(root, "_world.json")) as f:
                st = json.load(f)
            self.clock, self.versions, self.pad = st["clock"], st["versions"], st["pad"]
            self.broken = set(st["broken"])
            self.stamps = {m: {tuple(x) for x in v} for m, v in st["stamps"].items()}
            self.torn = st["torn"]
            return
        _COUNTER[0] += 1
        self.root = root or os.path.join(_BASE, f"h{os.getpid()}_{_COUNTER[0]}")
        os.makedirs(self.root)
        self.clock = 1_600_000_000
        self.versions = {m: 1 for m in MODULES}
        self.pad = {m: 0 for m in MODULES}
        self.broken = set()
        self.stamps = {m: set() for m in MODULES}  # (size, mtime) pairs already used per module
        for m in MODULES:
            self.write(m)

    def write(self, m):
        p = mod_file(self.root, m)
        os.makedirs(os.path.dirname(p), exist_ok=True)
        src = source(m, self.versions[m], self.imports.get(m, []), self.lazy.get(m), self.pad[m])
        if m in self.broken:
            src += "def (:\n"  # syntactically invalid source: get_code of this module raises SyntaxError
        with open(p, "w") as f:
            f.write(src)
        # excluded combination: an edit that preserves both size and mtime of an earlier version
        # (CPython's pyc validation cannot detect it) -> nudge the simulated clock
        t = self.clock
        while (len(src), t & 0xFFFFFFFF) in self.stamps[m]:
            t += 1
        self.stamps[m].add((len(src), t & 0xFFFFFFFF))
        os.utime(p, (t, t))

    def save(self):
        with open(os.path.join(self.root, "_world.json"), "w") as f:
            json.dump({"clock": self.clock, "versions": self.versions, "pad": self.pad, "broken": sorted(self.broken),
                       "stamps": {m: sorted(v) for m, v in self.stamps.items()}, "torn": self.torn}, f)

    def destroy(self):
        shutil.rmtree(self.root, ignore_errors=True)

    def pycs(self):
        out = []
        for dp, dn, fn in os.walk(self.root):
            if os.path.basename(dp) == "__pycache__":
                out.extend(os.path.join(dp, f) for f in sorted(fn))
        return sorted(out)


def _is_hook_finder(f):
    """A meta-path entry installed by jaxtyping's import hook (recognised by the module of its class, not by its name)."""
    cls = f if isinstance(f, type) else type(f)
    return (getattr(cls, "__module__", "") or "").startswith("jaxtyping")


def soft_restart(world):
    for name in list(sys.modules):
        if name.split(".")[0] in TOPS:
            del sys.modules[name]
    sys.meta_path[:] = [f for f in sys.meta_path if not _is_hook_finder(f)]
    try:
        _ih.Typechecker.lookup.clear()
    except AttributeError:  # internal layout changed: the registry is then simply not reset (entries are keyed by checker hash)
        pass
    _be.cache_from_source = _ORIG_CFS
    _be._write_atomic = _ORIG_WA
    _be._io = _ORIG_IO
    for k in list(sys.path_importer_cache):
        if k.startswith(_BASE):
            del sys.path_importer_cache[k]
    sys.path[:] = [p for p in sys.path if not p.startswith(_BASE)]
    importlib.invalidate_caches()
    hsim_spy.LOG.clear()


class _Crash(BaseException):
    pass


class _IoSeam:
    """File-system seam under importlib's source reads (importlib._bootstrap_external._io): a pending source edit
    lands immediately AFTER the bytes of the chosen source file have been read, i.e. while the import that read
    them is still in flight (editor save / checkout racing with the run).  Everything else is forwarded."""

    def __init__(self):
        self.pending = None  # (path, callback)

    def __getattr__(self, name):
        return getattr(_ORIG_IO, name)

    def open_code(self, path):
        if self.pending is not None and os.path.abspath(path) == self.pending[0]:
            import io

            with _ORIG_IO.open_code(path) as f:
                data = f.read()
            cb = self.pending[1]
            self.pending = None
            cb()
            return io.BytesIO(data)
        return _ORIG_IO.open_code(path)


class _PytestConfig:
    def __init__(self, value):
        self.value = value

    def getoption(self, name):
        assert name == "jaxtyping_packages"
        return self.value


def _covering(hooks, name):
    """Checkers of the active hooks whose names cover module <name> (model of C11's statement)."""
    out = []
    for h in hooks:
        if not h["active"]:
            continue
        for n in h["names"]:
            if name == n or name.startswith(n + "."):
                out.append(h["checker"])
                break
    return out


def run_one(world, run, bytecode, stats):
    """Execute one run (= one simulated process lifetime).  Returns list of problem dicts."""
    soft_restart(world)
    bytecode = run.get("bytecode", bytecode)  # a run may be started with -B / PYTHONDONTWRITEBYTECODE
    if not bytecode:
        stats.inc("runs_with_dont_write_bytecode")
    sys.dont_write_bytecode = not bytecode
    prefix_saved = sys.pycache_prefix
    if run.get("pycache_prefix"):
        # PYTHONPYCACHEPREFIX: bytecode lives in a mirror tree instead of __pycache__ directories
        sys.pycache_prefix = os.path.join(world.root, "_pyc_prefix")
        stats.inc("runs_with_pycache_prefix")
    # process-start configuration of this run: environment variables and the global disable switch
    env_saved = {k: os.environ.get(k) for k in run.get("env", {})}
    os.environ.update(run.get("env", {}))
    if run.get("env"):
        stats.inc("runs_with_extra_environment")
    disable_saved = jaxtyping.config.jaxtyping_disable
    if run.get("disable"):
        jaxtyping.config.update("jaxtyping_disable", True)
        stats.inc("runs_with_checking_disabled")
    sys.path.insert(0, world.root)
    importlib.invalidate_caches()
    st = seams.install(seams.SeamState(plan={(f["site"], f["k"]): f["exc"] for f in run.get("faults", [])}))
    problems = []
    observations = []
    hooks = []
    mgrs = {}
    disk = run.get("disk", {})
    events = [0]
    torn_expected = set()

    def write_atomic(path, data, mode=0o666):
        events[0] += 1
        k = events[0]
        stats.inc("disk_events")
        if run.get("crash_at") == k:
            stats.inc("fault:crash")
            raise _Crash()
        if k in disk.get("write_fail", ()):
            stats.inc("fault:pyc_write_fail")
            raise OSError(errno.ENOSPC, "simulated disk full")
        if k in disk.get("lose", ()):
            stats.inc("fault:pyc_lost_write")
            return None
        if k in disk.get("tear", ()):
            stats.inc("fault:pyc_torn_write")
            world.torn = True
            return _ORIG_WA(path, bytes(data)[: max(17, len(data) // 2)], mode)
        return _ORIG_WA(path, data, mode)

    def analyse(log0):
        """Judge every module load completed since LOG position log0 against the model of the current configuration."""
        done = {(e[1], e[2]) for e in hsim_spy.LOG[log0:] if e[0] == "done"}
        executed = [(e[1], e[2]) for e in hsim_spy.LOG[log0:] if e[0] == "exec" and (e[1], e[2]) in done]
        decos = {}
        for e in hsim_spy.LOG[log0:]:
            if e[0] == "deco":
                decos.setdefault(e[1], set()).add(e[3])
        for name, ver in executed:
            stats.inc("modules_loaded")
            want = _covering(hooks, name)
            mod = sys.modules.get(name)
            f = getattr(mod, "f", None) if mod is not None else None
            if f is None:
                continue  # body raised (injected) before f was defined
            inst = hasattr(f, "__wrapped__")
            got = sorted(decos.get(name, ()))
            exp_inst = bool(want)
            cur = world.versions[name]
            rec = {"module": name, "run_hooks": [(h["names"], h["checker"]) for h in hooks if h["active"]],
                   "instrumented": inst, "checkers_seen": got, "version_run": ver, "version_source": cur}
            observations.append([name, inst, got, ver])
            if ver == inflight.get(name) and (not callable(getattr(mod, "which", None)) or mod.which() == ver):
                stats.inc("loaded_text_read_before_concurrent_edit")
            elif ver != cur or (callable(getattr(mod, "which", None)) and mod.which() != cur):
                problems.append(dict(rec, what="stale code: module executed code of an older source version"))
            if inst != exp_inst:
                problems.append(dict(rec, what="instrumented although no active hook covers it" if inst
                                     else "NOT instrumented although an active hook covers it"))
            elif inst:
                allowed = {CANON[c] for c in want}
                seen = set(got) if got else {"none"}
                if not seen <= allowed:
                    problems.append(dict(rec, what="instrumented with a checker that no covering hook asked for",
                                         allowed=sorted(allowed)))
                stats.inc("loaded_instrumented")
                if len(set(want)) > 1:
                    stats.inc("loaded_under_overlapping_hooks")
            else:
                if got:
                    problems.append(dict(rec, what="uninstrumented module decorated by a spy checker"))
                stats.inc("loaded_plain")

    _be._write_atomic = write_atomic
    ioseam = _IoSeam()
    _be._io = ioseam
    inflight = {}
    crashed = False
    try:
        for i, op in enumerate(run["ops"]):
            k = op["op"]
            if k == "install":
                names = op["names"]
                chk = CHECKERS[op["checker"]]
                try:
                    if op.get("api") == "pytest":
                        import jaxtyping._pytest_plugin as pp

                        already = [n for n in names if n in sys.modules]
                        try:
                            pp.pytest_configure(_PytestConfig(",".join(names + [str(chk)]) if chk else None))
                            if chk is None:
                                continue  # the pytest option cannot express "no typechecker": nothing installed
                        except RuntimeError:
                            if not already:
                                problems.append({"what": "pytest_configure raised although nothing was imported", "op": op})
                            continue
                        if already:
                            problems.append({"what": "pytest_configure accepted already-imported packages", "op": op})
                    else:
                        arg = names[0] if (op.get("as_str") and len(names) == 1) else list(names)
                        tc = tuple(chk.rsplit(".", 1)) if (op.get("tuple_form") and chk) else chk
                        mgrs[op["id"]] = jaxtyping.install_import_hook(arg, tc)
                        if op.get("with") and not op.get("enter_later"):
                            mgrs[op["id"]].__enter__()
                    hooks.append({"id": op.get("id"), "names": names, "checker": op["checker"], "active": True})
                    stats.inc("op:install")
                except Exception as e:
                    problems.append({"what": "install_import_hook raised", "op": op, "exc": repr(e)})
            elif k == "enter":
                # the split spelling: hook = install_import_hook(...); ...other hooks, imports...; with hook: ...
                m = mgrs.get(op["id"])
                if m is not None:
                    m.__enter__()
                    stats.inc("op:enter_later")
            elif k == "uninstall":
                m = mgrs.get(op["id"])
                if m is not None:
                    if op.get("with"):
                        m.__exit__(None, None, None)
                    else:
                        m.uninstall()
                    for h in hooks:
                        if h["id"] == op["id"]:
                            h["active"] = False
                    stats.inc("op:uninstall")
            elif k in ("import", "call_lazy", "reload"):
                before = {n for n in sys.modules if n.split(".")[0] in TOPS}
                log0 = len(hsim_spy.LOG)
                exc = None
                target = op["module"]
                inflight.clear()
                ed = op.get("edit_during")
                if ed:
                    def land(ed=ed):
                        m_ = ed["module"]
                        inflight[m_] = world.versions[m_]  # the import in flight may legitimately run the text it read
                        world.versions[m_] += 1
                        if not ed.get("same_len"):
                            world.pad[m_] += ed.get("grow", 1)
                        world.clock += ed.get("clock", 2)
                        world.write(m_)
                        stats.inc("fault:source_edit_landed_during_import")

                    ioseam.pending = (os.path.abspath(mod_file(world.root, ed["module"])), land)
                try:
                    if k == "import":
                        importlib.import_module(target)
                    elif k == "reload":
                        parents = [".".join(target.split(".")[:j]) for j in range(1, target.count(".") + 1)]
                        if target in sys.modules and any(p_ not in sys.modules for p_ in parents):
                            # residue of an import that failed earlier in this run (a source was broken then): CPython removes
                            # the failed package from sys.modules but keeps the sub-modules it had already loaded; reloading one
                            # of those raises "parent not in sys.modules" with or without jaxtyping
                            stats.inc("reload_skipped_parent_not_loaded")
                            continue
                        if target in sys.modules:
                            importlib.reload(sys.modules[target])
                            before.discard(target)
                        else:
                            continue
                    else:
                        if target in sys.modules and hasattr(sys.modules[target], "lazy"):
                            sys.modules[target].lazy()
                        else:
                            continue
                except _Crash:
                    raise
                except BaseException as e:
                    exc = e
                ioseam.pending = None
                stats.inc("op:" + k)
                fired_now = [f for f in st.fired]
                if exc is not None and world.broken:
                    # some module's source currently does not compile: imports that (transitively) reach it fail with
                    # SyntaxError, and follow-on failures (ImportError: parent not in sys.modules) are legitimate
                    stats.inc("import_failed_while_a_source_is_broken")
                elif exc is not None and not st.fired and not getattr(world, "torn", False):
                    problems.append({"what": f"{k} of {target} failed in a fault-free run", "exc": repr(exc), "op_index": i})
                analyse(log0)
            elif k == "par":
                # concurrent imports inside one run: 2-3 real threads under the baton scheduler (pre-emption at every traced
                # line of jaxtyping/, i.e. inside the hook's finder, loader and AST transformer); the generator gives the
                # threads disjoint import closures, so they never wait for one another's module locks
                from . import sched as S
                from .core import rng as _rng

                log0 = len(hsim_spy.LOG)
                inflight.clear()
                excs = []

                def mk(targets):
                    def go():
                        for t_ in targets:
                            try:
                                importlib.import_module(t_)
                            except _Crash:
                                excs.append((t_, "crash"))
                            except BaseException as e:
                                excs.append((t_, repr(e)))
                    return go

                import _imp

                inner = S.make_policy(op["sched"], len(op["threads"]), _rng(op.get("sched_seed", 0), "par"), expected_yields=600)

                class _NoSwitchUnderImportLock(S.Policy):
                    """Finders run under CPython's GLOBAL import lock: no other thread can import meanwhile, so a pre-emption
                    there is neither possible to exploit nor schedulable (the next thread would block on the lock)."""

                    def first(self, s_):
                        return inner.first(s_)

                    def decide(self, s_, i_, loc):
                        if _imp.lock_held():
                            return None
                        return inner.decide(s_, i_, loc)

                    def on_enter(self, s_, i_, w):
                        return inner.on_enter(s_, i_, w)

                    def on_finish(self, s_, i_):
                        return inner.on_finish(s_, i_)

                pol = _NoSwitchUnderImportLock()
                sc = S.Scheduler(len(op["threads"]), pol, watchdog_s=60.0)
                sc.run([mk(t_) for t_ in op["threads"]])
                stats.inc("op:par")
                stats.inc("par:handovers", len(sc.handovers))
                stats.mx("par:max_yields", sc.total_yields)
                stats.inc("par:yields_inside_a_lock_of_the_hook", sc.skipped_in_critical_section)
                if any(h[1] != "fin" for h in sc.handovers):
                    stats.inc("par:runs_with_preemption")
                if excs and world.broken:
                    stats.inc("import_failed_while_a_source_is_broken")
                elif excs and not st.fired and not getattr(world, "torn", False) and not any(e[1] == "crash" for e in excs):
                    problems.append({"what": f"concurrent import of {excs[0][0]} failed in a fault-free run", "exc": excs[0][1], "op_index": i})
                if any(e[1] == "crash" for e in excs):
                    raise _Crash()
                analyse(log0)
            elif k == "edit":
                m = op["module"]
                world.versions[m] += 1
                if op.get("broken"):
                    world.broken.add(m)
                else:
                    world.broken.discard(m)
                if not op.get("same_len"):
                    world.pad[m] += op.get("grow", 1)
                world.clock += op.get("clock", 2)
                world.write(m)
                importlib.invalidate_caches()
                stats.inc("op:edit")
                stats.inc("edit:clock_back" if op.get("clock", 2) < 0 else "edit:clock_fwd")
            elif k == "delete_pyc":
                ps = world.pycs()
                if ps:
                    os.remove(ps[op["index"] % len(ps)])
                    stats.inc("fault:pyc_deleted")
            else:
                raise HarnessError(f"unknown hooksim op {k}")
    except _Crash:
        crashed = True
    finally:
        for site, n, exc in st.fired:
            stats.inc(f"fault_fired:{site}:{exc}")
        seams.uninstall()
        jaxtyping.config.update("jaxtyping_disable", disable_saved)
        for k_, v_ in env_saved.items():
            if v_ is None:
                os.environ.pop(k_, None)
            else:
                os.environ[k_] = v_
        # end-of-run invariants that the next op of the SAME process would rely on
        leaked = _be.cache_from_source is not _ORIG_CFS
        sys.pycache_prefix = prefix_saved
        _be._write_atomic = _ORIG_WA
        _be._io = _ORIG_IO
    if leaked and not crashed:
        # informational (white-box): the process ends here, so by itself this is not a violation of C18;
        # its behavioural consequences (a later import cached under the wrong name) are what the oracle checks
        stats.inc("whitebox:cache_from_source_left_patched_at_end_of_run")
    remaining = sum(1 for f in sys.meta_path if _is_hook_finder(f))
    expect_remaining = sum(1 for h in hooks if h["active"])
    # only 'after the last uninstall nothing remains' is demanded: how many finder objects serve the active
    # hooks is an implementation choice (a ref-counted shared finder would be fine)
    if expect_remaining == 0 and remaining > 0 and not crashed and run.get("check_finders", False):
        problems.append({"what": "a finder of the hook remains on sys.meta_path after every hook was uninstalled",
                         "on_meta_path": remaining})
    stats.inc("runs_crashed" if crashed else "runs_completed")
    world.last_observations = observations
    return problems


def pyc_census(world, stats):
    """Informational only: how many tagged / plain pycs exist (reach measure)."""
    for p in world.pycs():
        if "opt-jaxtyping" in os.path.basename(p):
            stats.inc("pyc_tagged_seen")
        else:
            stats.inc("pyc_plain_seen")


def run_history(scn, stats, real_process=False):
    """Soft-restart mode (default) or, for cross-validation, every run in a fresh real subprocess."""
    world = World(scn)
    out, obs = [], []
    try:
        for ri, run in enumerate(scn["runs"]):
            if real_process:
                world.save()
                probs, ob = _run_in_subprocess(scn, world.root, ri, stats)
                world = World(scn, world.root)
            else:
                probs = run_one(world, run, scn.get("bytecode", True), stats)
                ob = world.last_observations
            obs.append(ob)
            for p in probs:
                out.append(dict(p, run=ri))
            pyc_census(world, stats)
            stats.mx("simulated_clock_span_s", abs(world.clock - 1_600_000_000))
            stats.inc("simulated_clock_total_s", 0)
            if out:
                break
        stats.inc("simulated_time_covered_s", abs(world.clock - 1_600_000_000))
    finally:
        soft_restart(world)
        world.destroy()
    return out, obs


def _run_in_subprocess(scn, root, ri, stats):
    import subprocess

    spec = os.path.join(root, "_run.json")
    with open(spec, "w") as f:
        json.dump({"scn": scn, "run_index": ri}, f)
    env = dict(os.environ)
    env.pop("PYTHONDONTWRITEBYTECODE", None)
    p = subprocess.run([sys.executable, "-m", "sim.hookrun", root], env=env, capture_output=True, text=True, timeout=300,
                       cwd=os.path.dirname(os.path.dirname(os.path.abspath(__file__))))
    line = [ln for ln in p.stdout.splitlines() if ln.startswith("HOOKRUN ")]
    if p.returncode != 0 or not line:
        raise HarnessError(f"real-process run failed: rc={p.returncode} {p.stdout[-300:]} {p.stderr[-800:]}")
    r = json.loads(line[0][8:])
    stats.inc("real_process_runs")
    stats.merge(r["stats"])
    return r["problems"], r["observations"]
