"""Spy typecheckers and execution recorder for hooksim.  Importable by name ("sim.hsim_spy.a") because
jaxtyping's import hook takes the typechecker as a dotted string that instrumented code imports."""

from . import seams

LOG = []  # ("deco", module, qualname, checker id) | ("exec", module, version)


def _spy(cid):
    def checker(fn, *args, **kwargs):
        LOG.append(("deco", getattr(fn, "__module__", None), getattr(fn, "__qualname__", None), cid))
        return fn

    checker.__name__ = cid
    return checker


a = _spy("a")
b = _spy("b")


def executed(name, version):
    seams.hit("module.body")  # a fault here aborts the module body: then it is not an observed load
    LOG.append(("exec", name, version))


def completed(name, version):
    """Last statement of every generated module: only completed loads are judged."""
    LOG.append(("done", name, version))
