"""ipysim: histories of notebook cells in a real (in-process) IPython InteractiveShell driving jaxtyping's IPython
extension -- the third entry point named by C11 (API, pytest option, IPython magic).  Real: IPython's cell machinery
(AST transformers, magics, extension manager), jaxtyping's extension and transformer, importlib for forest imports.
Stub: the spy typecheckers (sim.hsim_spy.a / .b).

Operations (plain data):
  {"op": "load_ext"} | {"op": "reload_ext"}
  {"op": "magic", "checker": "a"|"b"}                         -> %jaxtyping.typechecker sim.hsim_spy.<c>  (run_line_magic)
  {"op": "cell", "k": n, "magic_first": None|"a"|"b"}          -> defines function f<n> and class K<n> (method m); a cell may
                                                                  START with the magic line: the cell's own code is then still
                                                                  transformed under the PREVIOUS state (transformers run before
                                                                  the cell executes), later cells under the new one
  {"op": "redefine", "k": n}                                  -> the same names defined again in a later cell
  {"op": "import", "module": m}                               -> `import m` typed in a cell (forest module: must load un-instrumented
                                                                  unless an install_import_hook covers it)
  {"op": "install"/"uninstall", ...}                           -> the API hook, as in hooksim
Model: a cell's definitions are instrumented iff a checker was chosen before the cell started, by exactly that checker;
definitions keep the checker they were made with; the magic never touches imported modules."""

import importlib
import os
import sys

import jaxtyping

from . import hooksim, hsim_spy
from .core import HarnessError

_SHELL = [None]


def shell():
    if _SHELL[0] is None:
        from IPython.core.interactiveshell import InteractiveShell
        from traitlets.config import Config

        from .core import scratch_dir

        os.environ["IPYTHONDIR"] = scratch_dir("jtv_ipy_")
        c = Config()
        c.HistoryManager.enabled = False
        c.HistoryManager.hist_file = ":memory:"
        c.InteractiveShell.colors = "nocolor"
        main_module = sys.modules.get("__main__")
        _SHELL[0] = InteractiveShell.instance(config=c)
        # IPython registers the notebook namespace as sys.modules['__main__']; the harness' own __main__ (the runner, whose
        # functions the worker pool pickles by reference) must stay where it was -- cells still see __name__ == '__main__'
        if main_module is not None:
            sys.modules["__main__"] = main_module
    return _SHELL[0]


def _reset(sh):
    sh.ast_transformers[:] = []
    sh.magics_manager.magics["line"].pop("jaxtyping.typechecker", None)
    sh.extension_manager.loaded.discard("jaxtyping")
    for k in [k for k in sh.user_ns if k[:1] in ("f", "K") and k[1:].isdigit()]:
        del sh.user_ns[k]


def run_notebook(scn, stats):
    """Execute one notebook history.  Returns (problems, observations)."""
    sh = shell()
    world = hooksim.World(scn)
    hooksim.soft_restart(world)
    _reset(sh)
    sys.dont_write_bytecode = True
    sys.path.insert(0, world.root)
    importlib.invalidate_caches()
    problems, observations = [], []
    loaded = False
    current = None  # checker chosen by the magic (None: no transformer installed)
    made_with = {}  # definition name -> checker it must have been made with (None = plain)
    hooks, mgrs = [], {}

    def judge(names, expect, log0, where):
        decos = {}
        for e in hsim_spy.LOG[log0:]:
            if e[0] == "deco" and e[1] == "__main__":
                decos.setdefault(e[2], set()).add(e[3])
        for name, qual, obj in names:
            inst = hasattr(obj, "__wrapped__")
            got = sorted(decos.get(qual, ()))
            observations.append([qual, inst, got])
            stats.inc("ipy:definitions")
            rec = {"definition": qual, "cell": where, "chosen_before_cell": expect, "instrumented": inst, "checkers_seen": got}
            if inst != (expect is not None):
                problems.append(dict(rec, what="NOT instrumented although a typechecker had been chosen with the magic" if expect is not None
                                     else "instrumented although no typechecker had been chosen yet"))
            elif inst and set(got) != {expect}:
                problems.append(dict(rec, what="instrumented with a checker other than the one chosen by the latest magic"))
            elif not inst and got:
                problems.append(dict(rec, what="uninstrumented definition decorated by a spy checker"))
            made_with[name] = expect
            stats.inc("ipy:instrumented" if inst else "ipy:plain")

    try:
        for i, op in enumerate(scn["cells"]):
            k = op["op"]
            if k in ("load_ext", "reload_ext"):
                try:
                    # (what %load_ext / %reload_ext do, minus their printing)
                    (sh.extension_manager.load_extension if k == "load_ext" else sh.extension_manager.reload_extension)("jaxtyping")
                    loaded = True
                    stats.inc("ipy:" + k)
                except Exception as e:
                    problems.append({"what": f"%{k} jaxtyping raised", "exc": repr(e), "op_index": i})
            elif k == "magic":
                try:
                    sh.run_line_magic("jaxtyping.typechecker", hooksim.CHECKERS[op["checker"]])
                    if not loaded:
                        problems.append({"what": "the magic exists although the extension was never loaded", "op_index": i})
                    current = op["checker"]
                    stats.inc("ipy:magic")
                except Exception as e:
                    if loaded:
                        problems.append({"what": "%jaxtyping.typechecker raised after load_ext", "exc": repr(e), "op_index": i})
                    else:
                        stats.inc("ipy:magic_before_load_rejected")
                n_tr = sum(1 for t in sh.ast_transformers if type(t).__module__.startswith("jaxtyping"))
                if loaded and n_tr != 1:
                    stats.inc("whitebox:shell_has_other_than_one_jaxtyping_transformer")  # informational; behaviour is judged per cell
            elif k in ("cell", "redefine"):
                n = op["k"]
                src = ""
                mf = op.get("magic_first") if loaded else None
                if mf:
                    src += f"%jaxtyping.typechecker {hooksim.CHECKERS[mf]}\n"
                src += (f"def f{n}(x: int) -> int:\n    return x + {i}\n\n"
                        f"class K{n}:\n    def m(self, y: int) -> int:\n        return y\n")
                log0 = len(hsim_spy.LOG)
                res = sh.run_cell(src, store_history=False, silent=True)
                stats.inc("ipy:cells")
                if not res.success:
                    problems.append({"what": "a notebook cell failed", "error": repr(res.error_before_exec or res.error_in_exec), "op_index": i})
                    continue
                f, K = sh.user_ns.get(f"f{n}"), sh.user_ns.get(f"K{n}")
                judge([(f"f{n}", f"f{n}", f), (f"K{n}.m", f"K{n}.m", getattr(K, "m", None))], current, log0, i)
                if f is not None and f(1) != 1 + i:
                    problems.append({"what": "a definition does not run the code of its own cell", "op_index": i})
                if mf:
                    current = mf
                    stats.inc("ipy:magic_inside_cell")
            elif k == "import":
                log0 = len(hsim_spy.LOG)
                res = sh.run_cell(f"import {op['module']}\n", store_history=False, silent=True)
                stats.inc("ipy:import_cells")
                if not res.success:
                    problems.append({"what": "import cell failed", "error": repr(res.error_before_exec or res.error_in_exec), "op_index": i})
                    continue
                done = {(e[1], e[2]) for e in hsim_spy.LOG[log0:] if e[0] == "done"}
                decos = {}
                for e in hsim_spy.LOG[log0:]:
                    if e[0] == "deco":
                        decos.setdefault(e[1], set()).add(e[3])
                for name, ver in [(e[1], e[2]) for e in hsim_spy.LOG[log0:] if e[0] == "exec" and (e[1], e[2]) in done]:
                    mod = sys.modules.get(name)
                    inst = hasattr(getattr(mod, "f", None), "__wrapped__")
                    want = hooksim._covering(hooks, name)
                    got = sorted(decos.get(name, ()))
                    observations.append([name, inst, got])
                    stats.inc("modules_loaded")
                    if inst != bool(want):
                        problems.append({"module": name, "instrumented": inst, "active_hooks": [(h["names"], h["checker"]) for h in hooks if h["active"]],
                                         "magic_checker": current,
                                         "what": "imported module instrumented although no install_import_hook covers it (the magic only "
                                                 "concerns code defined in the notebook)" if inst else "NOT instrumented although an active hook covers it"})
                    elif inst and not ({x for x in got} or {"none"}) <= {hooksim.CANON[c] for c in want}:
                        problems.append({"module": name, "what": "imported module instrumented with a checker no covering hook asked for",
                                         "checkers_seen": got})
            elif k == "install":
                try:
                    mgrs[op["id"]] = jaxtyping.install_import_hook(list(op["names"]), hooksim.CHECKERS[op["checker"]])
                    hooks.append({"id": op["id"], "names": op["names"], "checker": op["checker"], "active": True})
                except Exception as e:
                    problems.append({"what": "install_import_hook raised", "exc": repr(e)})
            elif k == "uninstall":
                m = mgrs.get(op["id"])
                if m is not None:
                    m.uninstall()
                    for h in hooks:
                        if h["id"] == op["id"]:
                            h["active"] = False
            elif k == "recheck":
                # definitions made earlier keep what they were made with
                for name, expect in sorted(made_with.items()):
                    obj = sh.user_ns.get(name.split(".")[0])
                    if "." in name:
                        obj = getattr(obj, "m", None)
                    if obj is not None and hasattr(obj, "__wrapped__") != (expect is not None):
                        problems.append({"what": "an earlier definition changed its instrumentation status after later magics", "definition": name})
            else:
                raise HarnessError(f"unknown ipysim op {k}")
    finally:
        _reset(sh)
        hooksim.soft_restart(world)
        world.destroy()
    return problems, observations
