"""Entry point:  python -m sim.main <PID> --tier quick|thorough | --replay <file> | --setup

Exit codes: 0 = every oracle held on everything explored (known findings are printed as
KNOWN-FINDING lines); 1 = VIOLATION printed, replay verified in a fresh interpreter; 2 = harness
error (wedge, dead worker, non-reproducing replay).  A wall-timeout kill can never look like success."""

import argparse
import concurrent.futures as cf
import faulthandler
import importlib
import json
import multiprocessing as mp
import os
import subprocess
import sys
import time
import traceback
import warnings

from . import core
from .core import HarnessError, Stats

PROPS = ["C01", "C02", "C04", "C05", "C06", "C08", "C09", "C11", "C12", "C13", "C16", "C18", "C19"]


def load_prop(pid):
    return importlib.import_module(f"sim.props.{pid.lower()}")


# ------------------------------------------------------------------------------------------
# worker side

_W = {}


def _worker_init(pid):
    import gc

    # garbage-collection discipline: automatic (allocation-count triggered) collections make the lifetime of weakly referenced
    # objects depend on what ran before; the simulator collects at fixed points instead (before every scenario, every 25
    # variants inside the fault-enumeration checks), so that GC timing is a function of the scenario alone
    gc.disable()
    warnings.simplefilter("ignore")
    faulthandler.enable()
    mod = load_prop(pid)
    _W["mod"] = mod
    _W["findings"] = core.load_known_findings()
    if hasattr(mod, "worker_init"):
        mod.worker_init()
    else:
        from . import ctxsim

        ctxsim.warm_up()
    gc.collect()
    gc.freeze()  # everything imported so far is permanent: the per-scenario collections only look at new objects


def _run_chunk(args):
    """Each chunk runs in a FORKED CHILD of the (initialised, otherwise idle) pool worker: the process state at the start
    of a chunk is therefore always the pristine post-initialisation state, whatever ran before -- a violation that depends
    on process-wide state accumulated by earlier scenarios is reproducible by replaying its chunk prefix in a fresh process."""
    return _in_forked_child(_run_chunk_body, args)


def _in_forked_child(fn, args):
    import pickle

    rfd, wfd = os.pipe()
    cpid = os.fork()
    if cpid == 0:
        code = 0
        try:
            os.close(rfd)
            out = fn(args)
            with os.fdopen(wfd, "wb") as f:
                pickle.dump(out, f)
        except BaseException:
            code = 1
            try:
                traceback.print_exc()
            except Exception:
                pass
        finally:
            os._exit(code)
    os.close(wfd)
    with os.fdopen(rfd, "rb") as f:
        data = f.read()
    _, status = os.waitpid(cpid, 0)
    if status != 0 or not data:
        return {"harness_error": f"chunk {args[3]}..{args[4]} died (wait status {status})", "done": 0}
    return pickle.loads(data)


def _run_chunk_body(args):
    pid, tier, verif_seed, i0, i1, deadline = args
    mod = _W["mod"]
    findings = _W["findings"]
    stats = Stats()
    feats = set()
    unknown = []
    known = {}
    samples = []
    done = 0
    for idx in range(i0, i1):
        if time.time() > deadline:
            break
        seed = core.run_seed(verif_seed, pid, tier, idx)
        faulthandler.dump_traceback_later(180, exit=True)
        try:
            scn = mod.gen(seed, tier, idx) if getattr(mod, "GEN_TAKES_INDEX", False) else mod.gen(seed, tier)
            core.gc_point()
            res = mod.execute(scn)
        except HarnessError as e:
            faulthandler.cancel_dump_traceback_later()
            return {"harness_error": f"seed {seed} (index {idx}): {e}", "done": done}
        except BaseException as e:
            faulthandler.cancel_dump_traceback_later()
            return {"harness_error": f"seed {seed} (index {idx}): {type(e).__name__}: {e}\n{traceback.format_exc()}",
                    "done": done}
        faulthandler.cancel_dump_traceback_later()
        done += 1
        stats.merge(res["stats"])
        feats.update(res.get("features", ()))
        if len(samples) < 1 and res.get("sample") is not None:
            samples.append({"seed": seed, **res["sample"]})
        for v in res["violations"]:
            f = core.match_known(v, findings)
            if f is not None:
                k = f["id"]
                if k not in known:
                    known[k] = {"count": 0, "example_seed": seed, "what": f["what"], "property": f["property"]}
                known[k]["count"] += 1
            else:
                if len(unknown) < 2:
                    unknown.append({"seed": seed, "index": idx, "chunk_start": i0, "scenario": scn, "violation": v,
                                    "result_extra": {k: res[k] for k in ("schedule", "first") if k in res}})
                stats.inc("unknown_violations")
    return {"done": done, "stats": stats.c, "features": sorted(feats), "unknown": unknown, "known": known,
            "samples": samples}


# ------------------------------------------------------------------------------------------
# replay

def replay_scenario(pid, scn):
    """Execute one explicit scenario in this process: returns the result dict."""
    mod = load_prop(pid)
    if not _W.get("inited"):
        _worker_init(pid)
        _W["inited"] = True
    core.gc_point()
    return mod.execute(scn)


def cmd_replay(path):
    with open(path) as f:
        rp = json.load(f)
    pid = rp["property"]
    if rp["scenario"].get("chunk_prefix"):
        # the violation needs process-wide state built up by the scenarios that ran before it in the same chunk: replay them all
        cp = rp["scenario"]["chunk_prefix"]
        mod = load_prop(pid)
        if not _W.get("inited"):
            _worker_init(pid)
            _W["inited"] = True
        res = {"violations": [], "digest": None}
        for idx in range(cp["first_index"], cp["last_index"] + 1):
            seed = core.run_seed(cp["verif_seed"], pid, cp["tier"], idx)
            scn = mod.gen(seed, cp["tier"], idx) if getattr(mod, "GEN_TAKES_INDEX", False) else mod.gen(seed, cp["tier"])
            core.gc_point()
            res = mod.execute(scn)
    elif rp["scenario"].get("pre_batch"):
        viols, _ = load_prop(pid).pre_batch("quick")
        res = {"violations": viols, "digest": None}
    else:
        res = replay_scenario(pid, rp["scenario"])
    exp = rp["expect"]
    findings = core.load_known_findings()
    hit = [v for v in res["violations"] if v["oracle"] == exp["oracle"]]
    print(f"replay {path}: {len(res['violations'])} violation(s); digest {res.get('digest')} (expected {exp.get('digest')})")
    for v in res["violations"]:
        print("  ", v["oracle"], "--", json.dumps(v["detail"], default=str)[:600])
    if hit:
        if all(core.match_known(v, findings) for v in hit):
            print(f"KNOWN-FINDING: property={pid} (replayed) {hit[0]['oracle']}")
            return 0
        print(f"VIOLATION property={pid} replay={path}")
        return 1
    print("replay did not reproduce the recorded violation")
    return 0


def _fresh_replay(path):
    """Replay in a fresh interpreter with another PYTHONHASHSEED; returns True iff it reproduces."""
    env = dict(os.environ, PYTHONHASHSEED="7")
    p = subprocess.run([sys.executable, "-X", "faulthandler", "-m", "sim.entry", "--replay", path],
                       cwd=core.VERIF_DIR, env=env, capture_output=True, text=True, timeout=600)
    return p.returncode == 1 and "VIOLATION property=" in p.stdout, p.stdout[-2000:] + p.stderr[-2000:]


# ------------------------------------------------------------------------------------------
# main batch

def run_batch(pid, tier, verif_seed, budget_s, workers, max_runs):
    mod = load_prop(pid)
    t0 = time.time()
    deadline = t0 + budget_s
    chunk = getattr(mod, "CHUNK", 8)
    ctx = mp.get_context("fork")
    agg = Stats()
    feats = set()
    unknown = []
    known = {}
    samples = []
    done = 0
    herr = None
    nxt = 0
    with cf.ProcessPoolExecutor(max_workers=workers, mp_context=ctx, initializer=_worker_init, initargs=(pid,)) as ex:
        pending = set()

        def submit():
            nonlocal nxt
            if nxt >= max_runs or time.time() > deadline:
                return False
            i1 = min(max_runs, nxt + chunk)
            pending.add(ex.submit(_run_chunk, (pid, tier, verif_seed, nxt, i1, deadline)))
            nxt = i1
            return True

        for _ in range(workers * 2):
            if not submit():
                break
        while pending:
            fin, pending_ = cf.wait(pending, timeout=300, return_when=cf.FIRST_COMPLETED)
            if not fin:
                herr = "worker pool made no progress for 300 s"
                break
            pending = pending_
            for f in fin:
                try:
                    r = f.result()
                except BaseException as e:  # dead worker (BrokenProcessPool) etc.
                    herr = f"worker died: {type(e).__name__}: {e}"
                    continue
                done += r.get("done", 0)
                if "harness_error" in r:
                    herr = r["harness_error"]
                    continue
                agg.merge(r["stats"])
                feats.update(r["features"])
                unknown.extend(r["unknown"])
                for k, v in r["known"].items():
                    if k in known:
                        known[k]["count"] += v["count"]
                    else:
                        known[k] = v
                if len(samples) < 3:
                    samples.extend(r["samples"])
                if not unknown and herr is None:
                    submit()
            if herr is not None:
                for p in pending:
                    p.cancel()
                break
    return {"done": done, "stats": agg, "features": feats, "unknown": sorted(unknown, key=lambda u: u["index"]),
            "known": known, "samples": samples[:3], "harness_error": herr, "wall": time.time() - t0}


def write_evidence(pid, tier, verif_seed, mod, b, violations, extra=None):
    st = b["stats"]
    cov = {
        "evaluations": int(st.get("evaluations", b["done"])) or int(b["done"]),
        "distinct_nontrivial": len(b["features"]),
        "rule": mod.RULE,
        "samples": b["samples"] or [{"note": "no run completed"}],
        "runs": b["done"],
        "runs_per_hour": int(b["done"] / max(b["wall"], 1e-9) * 3600),
        "seeds": {"VERIF_SEED": verif_seed, "run_seed": "H(VERIF_SEED, property, index) for index in [0, runs)"},
        "counters": {k: v for k, v in sorted(st.c.items())},
        "known_findings_matched": b["known"],
        "components": getattr(mod, "COMPONENTS", {}),
    }
    if extra:
        cov.update(extra)
    ev = {
        "property_id": pid,
        "tier": tier,
        "seed": verif_seed,
        "level": mod.LEVEL,
        "coverage": cov,
        "assumptions": getattr(mod, "ASSUMPTIONS", []),
        "wall_s": round(b["wall"], 2),
        "violations": violations,
    }
    d = os.environ.get("VERIF_EVIDENCE_DIR") or os.path.join(core.VERIF_DIR, "evidence")  # env override: tooling only
    os.makedirs(d, exist_ok=True)
    with open(os.path.join(d, f"{pid}.json"), "w") as f:
        json.dump(ev, f, indent=1, sort_keys=True, default=core._default)


def cmd_check(pid, tier):
    verif_seed = int(os.environ.get("VERIF_SEED", "0"))
    mod = load_prop(pid)
    budget = float(os.environ.get("VERIF_BUDGET_S", mod.BUDGET[tier]))
    workers = int(os.environ.get("VERIF_WORKERS", min(16, os.cpu_count() or 1)))
    max_runs = int(os.environ.get("VERIF_MAX_RUNS", getattr(mod, "MAX_RUNS", {}).get(tier, 10**9)))
    print(f"[{pid}] tier={tier} VERIF_SEED={verif_seed} budget={budget}s workers={workers}", flush=True)
    pre_v, pre_stats = [], {}
    if hasattr(mod, "pre_batch"):
        pre_v, pre_stats = mod.pre_batch(tier)
    b = run_batch(pid, tier, verif_seed, budget, workers, max_runs)
    b["stats"].merge(pre_stats)
    nviol = 0
    rc = 0
    lines = []
    findings = core.load_known_findings()
    for v in pre_v:
        f = core.match_known(v, findings)
        if f is not None:
            b["known"].setdefault(f["id"], {"count": 0, "example_seed": -1, "what": f["what"], "property": f["property"]})["count"] += 1
        else:
            path = core.write_replay(pid, 0, {"pre_batch": True}, v, None, False)
            ok, out = _fresh_replay(path)
            nviol += 1
            if ok:
                lines.append(f"VIOLATION property={pid} replay={path}")
                lines.append(f"  oracle={v['oracle']} detail={json.dumps(v['detail'], default=str)[:800]}")
                rc = 1
            else:
                lines.append(f"HARNESS-ERROR: pre-batch violation did not reproduce:\n{out}")
                rc = 2
            break
    for k, v in sorted(b["known"].items()):
        lines.append(f"KNOWN-FINDING: property={v['property']} {k}: {v['what']} (matched {v['count']} runs, e.g. seed {v['example_seed']})")
    extra = {}
    if b["unknown"]:
        from . import shrink

        nviol += len(b["unknown"])
        errs = []
        for u in b["unknown"][:4]:
            try:
                ok, out, v = False, "", u["violation"]
                try:
                    scn, v, dig, minimised = shrink.minimise(pid, u, budget_s=float(os.environ.get("VERIF_SHRINK_S", "120")))
                    path = core.write_replay(pid, u["seed"], scn, v, dig, minimised)
                    ok, out = _fresh_replay(path)
                except HarnessError as e:
                    minimised, out = True, str(e)  # does not reproduce on its own in this process: try the fallbacks
                if not ok and minimised:
                    # the minimiser runs many candidates in ONE process; if the system under test keeps process-wide state
                    # the minimised scenario may depend on it: fall back to the scenario exactly as generated
                    path = core.write_replay(pid, u["seed"], u["scenario"], u["violation"], None, False)
                    ok, out = _fresh_replay(path)
                    v = u["violation"]
                if not ok:
                    # last resort: the violation depends on process-wide state accumulated inside its chunk
                    cp = {"chunk_prefix": {"first_index": u["chunk_start"], "last_index": u["index"], "verif_seed": verif_seed, "tier": tier}}
                    path = core.write_replay(pid, u["seed"], cp, u["violation"], None, False)
                    ok, out = _fresh_replay(path)
                    v = u["violation"]
                    if ok:
                        lines.append(f"  (replay = run indices {u['chunk_start']}..{u['index']} in one fresh process: the violation depends on "
                                     f"process-wide state left by earlier scenarios)")
                if ok:
                    lines.append(f"VIOLATION property={pid} replay={path}")
                    lines.append(f"  oracle={v['oracle']} detail={json.dumps(v['detail'], default=str)[:800]}")
                    rc = 1
                    break
                errs.append(f"violation at seed {u['seed']} did not reproduce in a fresh interpreter:\n{out[-600:]}")
            except Exception as e:
                errs.append(f"minimisation/replay of seed {u['seed']} failed: {type(e).__name__}: {e}")
        if rc != 1:
            for e_ in errs:
                lines.append("HARNESS-ERROR: " + e_)
            rc = 2
    if b["harness_error"]:
        lines.append(f"HARNESS-ERROR: {b['harness_error']}")
        rc = rc or 2
    gaps = [k for k in getattr(mod, "REACH", []) if not any(c.startswith(k) and v for c, v in b["stats"].c.items())]
    if hasattr(mod, "reach_check"):
        gaps += mod.reach_check(b["stats"], tier)
    extra["reach_gaps"] = gaps
    if gaps:
        lines.append(f"[{pid}] reach: counters still at zero in this batch: {gaps}")
    write_evidence(pid, tier, verif_seed, mod, b, nviol, extra)
    for ln in lines:
        print(ln)
    print(f"[{pid}] runs={b['done']} distinct={len(b['features'])} wall={b['wall']:.1f}s "
          f"known={sum(v['count'] for v in b['known'].values())} unknown={nviol} exit={rc}")
    return rc


def _digest_chunk(args):
    return _in_forked_child(_digest_chunk_body, args)


def _digest_chunk_body(args):
    pid, tier, verif_seed, i0, i1 = args
    mod = _W["mod"]
    out = []
    for idx in range(i0, i1):
        seed = core.run_seed(verif_seed, pid, tier, idx)
        scn = mod.gen(seed, tier, idx) if getattr(mod, "GEN_TAKES_INDEX", False) else mod.gen(seed, tier)
        core.gc_point()
        res = mod.execute(scn)
        out.append([idx, res.get("digest"), len(res["violations"])])
    return out


def cmd_digests(pid, n, workers):
    """Prints the per-run digests of run indices [0, n) as JSON (determinism self-test building block)."""
    ctx = mp.get_context("fork")
    out = []
    with cf.ProcessPoolExecutor(max_workers=workers, mp_context=ctx, initializer=_worker_init, initargs=(pid,)) as ex:
        step = int(os.environ.get("VERIF_DIGEST_CHUNK") or getattr(load_prop(pid), "CHUNK", 8))  # same chunk boundaries as a check batch
        futs = [ex.submit(_digest_chunk, (pid, "quick", 0, i, min(n, i + step))) for i in range(0, n, step)]
        for f in futs:
            out.extend(f.result())
    out.sort()
    print("DIGESTS " + json.dumps(out))
    return 0


def cmd_selftest(pids, n):
    """Determinism: same run seed => same digest across (PYTHONHASHSEED, worker count, repetition, fresh interpreter)."""
    bad = 0
    for pid in pids:
        runs = []
        for hs, w, ck in (("0", 16, ""), ("7", 3, ""), ("0", 16, ""), ("0", 16, "1")):
            env = dict(os.environ, PYTHONHASHSEED=hs, VERIF_DIGEST_CHUNK=ck)
            p = subprocess.run([sys.executable, "-X", "faulthandler", "-m", "sim.entry", "--digests", pid, "--n", str(n), "--workers", str(w)],
                               cwd=core.VERIF_DIR, env=env, capture_output=True, text=True, timeout=3600)
            line = [ln for ln in p.stdout.splitlines() if ln.startswith("DIGESTS ")]
            if p.returncode != 0 or not line:
                print(f"[selftest] {pid}: digest run failed (hashseed={hs}, workers={w}): {p.stdout[-500:]} {p.stderr[-1500:]}")
                bad += 1
                break
            runs.append(json.loads(line[0][8:]))
        else:
            diff = [i for i, (a_, b_, c_, d_) in enumerate(zip(*runs)) if not (a_ == b_ == c_)]
            iso = [i for i, (a_, b_, c_, d_) in enumerate(zip(*runs)) if a_ != d_]
            print(f"[selftest] {pid}: {n} run seeds x 3 configurations (hashseed 0/16 workers, hashseed 7/3 workers, repeat): "
                  f"{'all digests equal' if not diff else f'{len(diff)} DIVERGED, first at index {diff[0]}: ' + str([r[diff[0]] for r in runs[:3]])}"
                  f"; every scenario alone in a fresh fork vs. inside its chunk: "
                  f"{'equal' if not iso else f'{len(iso)} differ (scenario depends on its chunk prefix), first at index {iso[0]}'}")
            bad += bool(diff)
    return 2 if bad else 0


def cmd_setup():
    import numpy  # noqa: F401
    import beartype  # noqa: F401
    import typeguard  # noqa: F401

    import jaxtyping

    assert os.path.realpath(jaxtyping.__file__).startswith(os.path.realpath(core.REPO_DIR)), jaxtyping.__file__
    assert os.path.realpath(core.REPO_DIR) == "/repo" or os.environ.get("VERIF_REPO"), core.REPO_DIR
    for pid in PROPS:
        try:
            load_prop(pid)
        except ModuleNotFoundError:
            pass
    print("setup ok: jaxtyping from", jaxtyping.__file__)
    return 0


def main(argv=None):
    ap = argparse.ArgumentParser()
    ap.add_argument("pid", nargs="?")
    ap.add_argument("--tier", default=os.environ.get("VERIF_TIER", "quick"))
    ap.add_argument("--replay")
    ap.add_argument("--setup", action="store_true")
    ap.add_argument("--digests")
    ap.add_argument("--selftest", nargs="?", const="all")
    ap.add_argument("--n", type=int, default=200)
    ap.add_argument("--workers", type=int, default=16)
    a = ap.parse_args(argv)
    warnings.simplefilter("ignore")
    if a.setup:
        return cmd_setup()
    if a.replay:
        return cmd_replay(a.replay)
    if a.digests:
        return cmd_digests(a.digests.upper(), a.n, a.workers)
    if a.selftest:
        return cmd_selftest(PROPS if a.selftest == "all" else [x.upper() for x in a.selftest.split(",")], a.n)
    if not a.pid:
        ap.error("property id required")
    tier = os.environ.get("VERIF_TIER") or a.tier
    return cmd_check(a.pid.upper(), tier)


if __name__ == "__main__":
    try:
        with core.ScratchBase():
            rc = main()
    except HarnessError as e:
        print(f"HARNESS-ERROR: {e}")
        rc = 2
    sys.stdout.flush()
    os._exit(rc)
