"""Reference model: a deliberately naive, independent implementation of what the property
statements and docs/api/*.md say.  It returns OUTCOME SETS: the implementation is wrong only if its
outcome is outside the set.  Outcomes: "accept", "reject", "AnnotationError", "exc" (an exception of
user code / expression evaluation propagates)."""

import numpy as np

from .gen import CATEGORIES

ACCEPT, REJECT, ANNERR, EXC = "accept", "reject", "AnnotationError", "exc"


# ------------------------------------------------------------------------------------------
# dim strings (independent little parser: modifiers in any order, doc= prefixes, '...')

def parse_dims(s):
    toks = []
    for elem in s.split():
        if elem == "...":
            toks.append({"kind": "anonvar"})
            continue
        b = v = anon = q = False
        while elem:
            c = elem[0]
            if c == "#":
                b, elem = True, elem[1:]
            elif c == "*":
                v, elem = True, elem[1:]
            elif c == "_":
                anon, elem = True, elem[1:]
            elif c == "?":
                q, elem = True, elem[1:]
            elif elem.count("=") == 1:
                elem = elem.split("=")[1]
            else:
                break
        if anon:
            toks.append({"kind": "anonvar" if v else "anon"})
        elif elem.isidentifier():
            toks.append({"kind": "var" if v else "named", "name": elem, "b": b, "q": q})
        else:
            try:
                toks.append({"kind": "fixed", "size": int(elem), "b": b})
            except ValueError:
                toks.append({"kind": "sym", "expr": elem, "b": b})
    return toks


class Ctx:
    """One checking context of the model."""

    def __init__(self, axes=None, variadics=None, structs=None, args=None):
        self.axes = dict(axes or {})  # name -> int   ('?' axes: "(label) name")
        self.variadics = dict(variadics or {})  # name -> (only_broadcast_so_far, shape tuple)
        self.structs = dict(structs or {})
        self.args = dict(args or {})

    def copy(self):
        return Ctx(self.axes, self.variadics, self.structs, self.args)

    @staticmethod
    def from_snapshot(snap, args=None):
        top = snap.get("top") or {"single": {}, "variadic": {}, "pytree": {}}
        return Ctx(top["single"], {k: (bool(b), tuple(sh)) for k, (b, sh) in top["variadic"].items()},
                   top["pytree"], args or {})

    def same_bindings(self, snap):
        top = snap.get("top") or {"single": {}, "variadic": {}, "pytree": {}}
        return (self.axes == top["single"]
                and {k: [bool(b), list(sh)] for k, (b, sh) in self.variadics.items()} == top["variadic"])


def _bshape(a, b):
    try:
        return tuple(int(x) for x in np.broadcast_shapes(tuple(a), tuple(b)))
    except ValueError:
        return None


def _eval_sym(expr, axes, args):
    """Two-stage evaluation per docs: f-string over the arguments, then over bound sizes."""
    try:
        txt = eval("f" + repr(expr), dict(args))
    except NameError:
        return ("unbound", None)
    except Exception:
        return ("exc", None)
    try:
        return ("ok", eval(txt, dict(axes)))
    except NameError:
        return ("unbound", None)
    except Exception:
        return ("exc", None)


def match_shape(toks, shape, ctx, label=None):
    """Returns (outcomes:set, post:Ctx|None).  label: '?'-leaf label (str) or None or 'ERR'."""
    shape = tuple(shape)
    nvar = [i for i, t in enumerate(toks) if t["kind"] in ("var", "anonvar")]
    has_sym = any(t["kind"] == "sym" for t in toks)
    uses_q = any(t.get("q") for t in toks)
    post = ctx.copy()
    problems = set()
    if nvar:
        i = nvar[0]
        nsuf = len(toks) - i - 1
        if len(shape) < len(toks) - 1:
            problems.add(REJECT)
            singles, var = [], None
        else:
            singles = list(zip(toks[:i], shape[:i])) + (list(zip(toks[i + 1:], shape[len(shape) - nsuf:])) if nsuf else [])
            var = (toks[i], shape[i:len(shape) - nsuf])
    else:
        var = None
        if len(shape) != len(toks):
            problems.add(REJECT)
            singles = []
        else:
            singles = list(zip(toks, shape))
    if problems:
        out = set(problems)
        if has_sym and _any_unbound_sym(toks, ctx):
            out.add(ANNERR)
        if uses_q and label is None:
            out.add(ANNERR)
        return out, None
    if uses_q and label is None:
        # '?' outside a structured PyTree: AnnotationError (a mismatch found first may also answer)
        problems.add(ANNERR)
        label = "(nolabel) "
    bound_here = set()
    for t, s in singles:
        k = t["kind"]
        if k == "anon":
            continue
        if t.get("b") and s == 1:
            continue
        if k == "fixed":
            if t["size"] != s:
                problems.add(REJECT)
        elif k == "sym":
            st, val = _eval_sym(t["expr"], post.axes, post.args)
            if st == "unbound":
                problems.add(ANNERR)
            elif st == "exc":
                problems.add(EXC)
            elif val != s:
                problems.add(REJECT)
        elif k == "named":
            name = (label + t["name"]) if t.get("q") else t["name"]
            if name in post.axes:
                if post.axes[name] != s:
                    problems.add(REJECT)
            else:
                post.axes[name] = s
                bound_here.add(name)
    if var is not None and var[0]["kind"] == "var":
        t, seg = var
        seg = tuple(seg)
        name = (label + t["name"]) if t.get("q") else t["name"]
        b = bool(t.get("b"))
        if name not in post.variadics:
            post.variadics[name] = (b, seg)
        else:
            pb, ps = post.variadics[name]
            if pb:
                bs = _bshape(seg, ps)
                if bs is None:
                    problems.add(REJECT)
                elif b:
                    post.variadics[name] = (True, bs)
                elif bs != seg:
                    problems.add(REJECT)
                else:
                    post.variadics[name] = (False, seg)
            else:
                if b:
                    if _bshape(seg, ps) != ps:
                        problems.add(REJECT)
                elif seg != ps:
                    problems.add(REJECT)
    if not problems:
        return {ACCEPT}, post
    out = set(problems)
    if ANNERR in problems and problems == {ANNERR} and has_sym:
        # a symbolic axis that mentions a name bound LATER in the same array: order of evaluation is
        # not specified by the texts -> also allow the verdict of a full evaluation
        o2, p2 = _retry_with_bound(toks, shape, ctx, label)
        if o2 is not None:
            out |= o2
            return out, p2
    return out, None


def _any_unbound_sym(toks, ctx):
    for t in toks:
        if t["kind"] == "sym":
            st, _ = _eval_sym(t["expr"], ctx.axes, ctx.args)
            if st == "unbound":
                return True
    return False


def _retry_with_bound(toks, shape, ctx, label):
    """Evaluate with all named axes of this array pre-bound (two-pass semantics)."""
    c2 = ctx.copy()
    # first pass: bind names, ignoring symbolic axes
    t2 = [dict(t, kind="anon") if t["kind"] == "sym" else t for t in toks]
    o, p = match_shape(t2, shape, c2, label)
    if p is None:
        return o, None
    o3, p3 = match_shape(toks, shape, p, label)
    if ANNERR in o3:
        return None, None
    return o3, (p3 if ACCEPT in o3 else None)


# ------------------------------------------------------------------------------------------
# arrays

def value_kind(v):
    return v["t"]


def match_array(spec, val, ctx, label=None, flatten_mode=False):
    """spec: annotation spec dict (k == 'arr'); val: value spec dict.  -> (outcomes, post ctx|None)"""
    at = spec["atype"]
    vt = val["t"]
    if vt not in ("np", "duck", "mduck"):
        return {REJECT}, None
    if at == "np" and vt != "np":
        return {REJECT}, None
    if at == "duck" and vt not in ("duck", "mduck"):
        return {REJECT}, None
    if at == "mduck" and vt != "mduck":
        return {REJECT}, None
    toks = parse_dims(spec["dims"])
    if val.get("d", "float32") not in CATEGORIES[spec["dtype"]]:
        out = {REJECT}
        return out, None
    return match_shape(toks, val["s"], ctx, label)
