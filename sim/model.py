"""Reference model: a deliberately naive, independent implementation of what the property
statements and docs/api/*.md say.  It returns OUTCOME SETS: the implementation is wrong only if its
outcome is outside the set.  Outcomes: "accept", "reject", "AnnotationError", "exc" (an exception of
user code / expression evaluation propagates)."""

import numpy as np

from .gen import CATEGORIES

ACCEPT, REJECT, ANNERR, EXC = "accept", "reject", "AnnotationError", "exc"


# ------------------------------------------------------------------------------------------
# dim strings (independent little parser: modifiers in any order, doc= prefixes, '...')

def parse_dims(s):
    toks = []
    for elem in s.split():
        if elem == "...":
            toks.append({"kind": "anonvar"})
            continue
        b = v = anon = q = False
        while elem:
            c = elem[0]
            if c == "#":
                b, elem = True, elem[1:]
            elif c == "*":
                v, elem = True, elem[1:]
            elif c == "_":
                anon, elem = True, elem[1:]
            elif c == "?":
                q, elem = True, elem[1:]
            elif elem.count("=") == 1:
                elem = elem.split("=")[1]
            else:
                break
        if anon:
            toks.append({"kind": "anonvar" if v else "anon"})
        elif elem.isidentifier():
            toks.append({"kind": "var" if v else "named", "name": elem, "b": b, "q": q})
        else:
            try:
                toks.append({"kind": "fixed", "size": int(elem), "b": b})
            except ValueError:
                toks.append({"kind": "sym", "expr": elem, "b": b})
    return toks


class Ctx:
    """One checking context of the model."""

    def __init__(self, axes=None, variadics=None, structs=None, args=None):
        self.axes = dict(axes or {})  # name -> int   ('?' axes: "(label) name")
        self.variadics = dict(variadics or {})  # name -> (only_broadcast_so_far, shape tuple)
        self.structs = dict(structs or {})
        self.args = dict(args or {})

    def copy(self):
        return Ctx(self.axes, self.variadics, self.structs, self.args)

    @staticmethod
    def from_snapshot(snap, args=None):
        top = snap.get("top") or {"single": {}, "variadic": {}, "pytree": {}}
        return Ctx(top["single"], {k: (bool(b), tuple(sh)) for k, (b, sh) in top["variadic"].items()},
                   top["pytree"], args or {})

    @staticmethod
    def from_text(text, args=None):
        """Black-box fallback (white-box memo unavailable, e.g. after an internal refactoring): axis and variadic bindings
        parsed from print_bindings().  The only-broadcast-so-far flag of a variadic binding is not printed: the caller has to
        evaluate both possibilities (see variants())."""
        axes, variadics = {}, {}
        for ln in text.splitlines():
            if ln.startswith("The current values for each jaxtyping PyTree"):
                break
            if "=" in ln and not ln.startswith("The current"):
                k, v = ln.split("=", 1)
                v = v.strip()
                if v.startswith("("):
                    variadics[k] = (False, tuple(int(x) for x in v.strip("()").split(",") if x.strip()))
                else:
                    try:
                        axes[k] = int(v)
                    except ValueError:
                        pass
        return Ctx(axes, variadics, {}, args or {})

    def variants(self):
        """All assignments of the unprinted broadcast flags."""
        names = sorted(self.variadics)
        out = []
        for mask in range(2 ** len(names)):
            c = self.copy()
            for i, n in enumerate(names):
                c.variadics[n] = (bool(mask >> i & 1), self.variadics[n][1])
            out.append(c)
        return out

    def same_bindings(self, snap):
        top = snap.get("top") or {"single": {}, "variadic": {}, "pytree": {}}
        return (self.axes == top["single"]
                and {k: [bool(b), list(sh)] for k, (b, sh) in self.variadics.items()} == top["variadic"])


def _bshape(a, b):
    try:
        return tuple(int(x) for x in np.broadcast_shapes(tuple(a), tuple(b)))
    except ValueError:
        return None


def _eval_sym(expr, axes, args):
    """Two-stage evaluation per docs: f-string over the arguments, then over bound sizes."""
    try:
        txt = eval("f" + repr(expr), dict(args))
    except NameError:
        return ("unbound", None)
    except Exception:
        return ("exc", None)
    try:
        return ("ok", eval(txt, dict(axes)))
    except NameError:
        return ("unbound", None)
    except Exception:
        return ("exc", None)


def match_shape(toks, shape, ctx, label=None, retry=True):
    """Returns (outcomes:set, post:Ctx|None).  label: '?'-leaf label (str) or None or 'ERR'."""
    shape = tuple(shape)
    nvar = [i for i, t in enumerate(toks) if t["kind"] in ("var", "anonvar")]
    has_sym = any(t["kind"] == "sym" for t in toks)
    uses_q = any(t.get("q") for t in toks)
    post = ctx.copy()
    problems = set()
    if nvar:
        i = nvar[0]
        nsuf = len(toks) - i - 1
        if len(shape) < len(toks) - 1:
            problems.add(REJECT)
            singles, var = [], None
        else:
            singles = list(zip(toks[:i], shape[:i])) + (list(zip(toks[i + 1:], shape[len(shape) - nsuf:])) if nsuf else [])
            var = (toks[i], shape[i:len(shape) - nsuf])
    else:
        var = None
        if len(shape) != len(toks):
            problems.add(REJECT)
            singles = []
        else:
            singles = list(zip(toks, shape))
    if problems:
        out = set(problems)
        if has_sym and _any_unbound_sym(toks, ctx):
            out.add(ANNERR)
        if uses_q and label is None:
            out.add(ANNERR)
        return out, None
    if uses_q and label is None:
        # '?' outside a structured PyTree: AnnotationError (a mismatch found first may also answer)
        problems.add(ANNERR)
        label = "(nolabel) "
    bound_here = set()
    for t, s in singles:
        k = t["kind"]
        if k == "anon":
            continue
        if t.get("b") and s == 1:
            continue
        if k == "fixed":
            if t["size"] != s:
                problems.add(REJECT)
        elif k == "sym":
            st, val = _eval_sym(t["expr"], post.axes, post.args)
            if st == "unbound":
                problems.add(ANNERR)
            elif st == "exc":
                problems.add(EXC)
            elif val != s:
                problems.add(REJECT)
        elif k == "named":
            name = (label + t["name"]) if t.get("q") else t["name"]
            if name in post.axes:
                if post.axes[name] != s:
                    problems.add(REJECT)
            else:
                post.axes[name] = s
                bound_here.add(name)
    if var is not None and var[0]["kind"] == "var":
        t, seg = var
        seg = tuple(seg)
        name = (label + t["name"]) if t.get("q") else t["name"]
        b = bool(t.get("b"))
        if name not in post.variadics:
            post.variadics[name] = (b, seg)
        else:
            pb, ps = post.variadics[name]
            if pb:
                bs = _bshape(seg, ps)
                if bs is None:
                    problems.add(REJECT)
                elif b:
                    post.variadics[name] = (True, bs)
                elif bs != seg:
                    problems.add(REJECT)
                else:
                    post.variadics[name] = (False, seg)
            else:
                if b:
                    if _bshape(seg, ps) != ps:
                        problems.add(REJECT)
                elif seg != ps:
                    problems.add(REJECT)
    if not problems:
        return {ACCEPT}, post
    out = set(problems)
    if retry and ANNERR in problems and problems == {ANNERR} and has_sym:
        # a symbolic axis that mentions a name bound LATER in the same array: order of evaluation is
        # not specified by the texts -> also allow the verdict of a full evaluation
        o2, p2 = _retry_with_bound(toks, shape, ctx, label)
        if o2 is not None:
            out |= o2
            return out, p2
    return out, None


def _any_unbound_sym(toks, ctx):
    for t in toks:
        if t["kind"] == "sym":
            st, _ = _eval_sym(t["expr"], ctx.axes, ctx.args)
            if st == "unbound":
                return True
    return False


def _retry_with_bound(toks, shape, ctx, label):
    """Evaluate with all named axes of this array pre-bound (two-pass semantics)."""
    c2 = ctx.copy()
    # first pass: bind names, ignoring symbolic axes
    t2 = [dict(t, kind="anon") if t["kind"] == "sym" else t for t in toks]
    o, p = match_shape(t2, shape, c2, label, retry=False)
    if p is None:
        return o, None
    o3, p3 = match_shape(toks, shape, p, label, retry=False)
    if ANNERR in o3:
        return None, None
    return o3, (p3 if ACCEPT in o3 else None)


# ------------------------------------------------------------------------------------------
# arrays

def value_kind(v):
    return v["t"]


def match_array(spec, val, ctx, label=None, flatten_mode=False):
    """spec: annotation spec dict (k == 'arr'); val: value spec dict.  -> (outcomes, post ctx|None)"""
    val = unshare(val)
    at = spec["atype"]
    vt = val["t"]
    if "+" in at:
        # Dtype[Union[A, scalar], dims] == Union[Dtype[A, dims], scalar] if every axis is a multi-axis specifier and the category has
        # a dtype whose name starts with the scalar's name, else Dtype[A, dims]; a scalar matches by isinstance and binds nothing
        at, sc = at.split("+")
        if vt == "py":
            made = all(t["kind"] in ("var", "anonvar") for t in parse_dims(spec["dims"])) and \
                any(d.startswith(sc) for d in CATEGORIES[spec["dtype"]])
            is_inst = {"float": ("float",), "int": ("int", "bool"), "bool": ("bool",)}[sc]
            if made and val["k"] in is_inst:
                return {ACCEPT}, ctx.copy()
            return {REJECT}, None
        spec = dict(spec, atype=at)
    if vt not in ("np", "duck", "mduck"):
        return {REJECT}, None
    if at == "np" and vt != "np":
        return {REJECT}, None
    if at == "duck" and vt not in ("duck", "mduck"):
        return {REJECT}, None
    if at == "mduck" and vt != "mduck":
        return {REJECT}, None
    toks = parse_dims(spec["dims"])
    if val.get("d", "float32") not in CATEGORIES[spec["dtype"]]:
        out = {REJECT}
        return out, None
    return match_shape(toks, val["s"], ctx, label)


# ------------------------------------------------------------------------------------------
# decorated call: DECLARATIVE satisfiability (does not walk the parameters in order)

def _collect(items):
    """-> (type_bad, singles[(tok,size)], variadic_uses{name:[(b,seg)]})"""
    type_bad = False
    singles, variadic_uses = [], {}
    for spec, val in items:
        at, vt = spec["atype"], val["t"]
        if vt not in ("np", "duck", "mduck") or (at == "np" and vt != "np") or (at in ("duck", "mduck") and vt == "np") \
                or (at == "mduck" and vt != "mduck"):
            type_bad = True
            continue
        if val.get("d", "float32") not in CATEGORIES[spec["dtype"]]:
            type_bad = True
            continue
        toks = parse_dims(spec["dims"])
        shape = tuple(val["s"])
        nvar = [i for i, t in enumerate(toks) if t["kind"] in ("var", "anonvar")]
        if nvar:
            i = nvar[0]
            nsuf = len(toks) - i - 1
            if len(shape) < len(toks) - 1:
                type_bad = True
                continue
            pairs = list(zip(toks[:i], shape[:i])) + (list(zip(toks[i + 1:], shape[len(shape) - nsuf:])) if nsuf else [])
            if toks[i]["kind"] == "var":
                variadic_uses.setdefault(toks[i]["name"], []).append((bool(toks[i].get("b")), shape[i:len(shape) - nsuf]))
        else:
            if len(shape) != len(toks):
                type_bad = True
                continue
            pairs = list(zip(toks, shape))
        singles.extend(pairs)
    return type_bad, singles, variadic_uses


def _solve(singles, variadic_uses):
    """-> (unsat, axes) : one consistent assignment of sizes to names / shapes to *names?"""
    unsat = False
    axes = {}
    for t, s in singles:
        if t["kind"] == "named":
            if t.get("b") and s == 1:
                continue
            if t["name"] in axes and axes[t["name"]] != s:
                unsat = True
            axes.setdefault(t["name"], s)
        elif t["kind"] == "fixed":
            if not (t["size"] == s or (t.get("b") and s == 1)):
                unsat = True
    for name, uses in variadic_uses.items():
        plain = [tuple(seg) for b, seg in uses if not b]
        bro = [tuple(seg) for b, seg in uses if b]
        if plain:
            v = plain[0]
            if any(p != v for p in plain):
                unsat = True
            for seg in bro:
                if _bshape(seg, v) != v:
                    unsat = True
        else:
            acc = ()
            for seg in bro:
                acc = _bshape(seg, acc) if acc is not None else None
            if acc is None:
                unsat = True
    return unsat, axes


def call_model(param_items, ret_item=None, args=None):
    """param_items: [(annotation spec, value spec)] for every array-annotated argument; ret_item: the same
    for the returned value or None.  Returns the outcome set of the whole call.  Symbolic axes of parameters
    are evaluated over the sizes fixed by the PARAMETERS, those of the return value over all sizes."""
    args = args or {}
    tb_p, sg_p, vu_p = _collect(param_items)
    unsat_p, axes_p = _solve(sg_p, vu_p)
    all_items = list(param_items) + ([ret_item] if ret_item is not None else [])
    tb_a, sg_a, vu_a = _collect(all_items)
    unsat_a, axes_a = _solve(sg_a, vu_a)
    unsat = tb_a or unsat_a
    annerr = False
    n_p = len(sg_p)
    for idx, (t, s) in enumerate(sg_a):
        if t["kind"] != "sym" or (t.get("b") and s == 1):
            continue
        st, val = _eval_sym(t["expr"], axes_p if idx < n_p else axes_a, args)
        if st == "unbound":
            annerr = True
        elif st == "exc":
            return {EXC, REJECT, ANNERR}
        elif val != s:
            unsat = True
    out = set()
    if unsat:
        out.add(REJECT)
    if annerr:
        out.add(ANNERR)
    return out or {ACCEPT}


# ------------------------------------------------------------------------------------------
# trees: own flatten, structure algebra, leaf types

LEAF = "*"


def unshare(v):
    while v["t"] in ("shared", "pool"):
        v = v["v"]
    return v


def _children(v):
    """Children of a container VALUE SPEC, or None if the value is not a container."""
    t = v["t"]
    if t in ("tuple", "list", "nt", "node"):
        return list(v["c"])
    if t == "dict":
        return [c for _, c in sorted(v["c"], key=lambda kv: kv[0])]
    if t == "none":
        return []
    return None


def _node_tag(v):
    t = v["t"]
    if t == "dict":
        return ("dict", tuple(sorted(k for k, _ in v["c"])))
    if t in ("tuple", "list", "nt", "node"):
        return (t, len(v["c"]))
    if t == "none":
        return ("none", 0)
    return None


def flatten(v, is_leaf):
    """-> (struct, leaves): top-down; a subtree for which is_leaf(v) holds is a leaf; None and empty
    containers contribute no leaves.  struct: LEAF | (tag, [child structs])"""
    v = unshare(v)
    if is_leaf(v):
        return LEAF, [v]
    ch = _children(v)
    if ch is None:
        return LEAF, [v]
    leaves, subs = [], []
    for c in ch:
        s, ls = flatten(c, is_leaf)
        subs.append(s)
        leaves.extend(ls)
    return (_node_tag(v), subs), leaves


def struct_of(v):
    return flatten(v, lambda x: False)[0]


def compose(s, t):
    if s == LEAF:
        return t
    return (s[0], [compose(c, t) for c in s[1]])


def is_prefix(n, x):
    """n is a prefix of x: x is obtained from n by replacing leaves with arbitrary subtrees."""
    if n == LEAF:
        return True
    if x == LEAF or n[0] != x[0]:
        return False
    return all(is_prefix(a, b) for a, b in zip(n[1], x[1]))


def is_suffix(t, x):
    """x is obtained from some U by replacing every leaf of U with t."""
    if x == t:
        return True
    if x == LEAF:
        return False
    return all(is_suffix(t, c) for c in x[1])


def num_leaves(s):
    return 1 if s == LEAF else sum(num_leaves(c) for c in s[1])


class TreeModel:
    def __init__(self, anns):
        self.anns = anns

    # -- leaf types ---------------------------------------------------------------------------
    def leaf_match(self, L, v, ctx, label, flat):
        """-> (outs, post).  flat=True: flatten mode (array annotations only test the array type, no binding)."""
        v = unshare(v)
        if L == "any":
            return {ACCEPT}, ctx
        if L == "int":
            return ({ACCEPT}, ctx) if v["t"] == "int" else ({REJECT}, None)
        if L == "str":
            return ({ACCEPT}, ctx) if v["t"] == "str" else ({REJECT}, None)
        if L == "leaf":
            return ({ACCEPT}, ctx) if v["t"] == "leaf" else ({REJECT}, None)
        if L == "none":
            return ({ACCEPT}, ctx) if v["t"] == "none" else ({REJECT}, None)
        spec = self.anns[L]
        k = spec["k"]
        if k == "arr":
            if flat:
                at, vt = spec["atype"], v["t"]
                ok = vt in ("np", "duck", "mduck") and not (at == "np" and vt != "np") and not (at in ("duck", "mduck") and vt == "np") \
                    and not (at == "mduck" and vt != "mduck")
                return ({ACCEPT}, ctx) if ok else ({REJECT}, None)
            return match_array(spec, v, ctx, label)
        if k == "tuple":
            if v["t"] not in ("tuple", "nt") or len(v["c"]) != len(spec["items"]):
                return {REJECT}, None
            cur = ctx
            for it, c in zip(spec["items"], v["c"]):
                o, p = self.leaf_match(it, c, cur, label, flat)
                if o != {ACCEPT}:
                    return o, None
                cur = p
            return {ACCEPT}, cur
        if k == "listof":
            if v["t"] != "list":
                return {REJECT}, None
            cur = ctx
            for c in v["c"]:
                o, p = self.leaf_match(spec["item"], c, cur, label, flat)
                if o != {ACCEPT}:
                    return o, None
                cur = p
            return {ACCEPT}, cur
        if k == "dictof":
            if v["t"] != "dict":
                return {REJECT}, None
            cur = ctx
            for _, c in v["c"]:
                o, p = self.leaf_match(spec["item"], c, cur, label, flat)
                if o != {ACCEPT}:
                    return o, None
                cur = p
            return {ACCEPT}, cur
        if k == "union":
            outs = set()
            for it in spec["items"]:
                o, p = self.leaf_match(it, v, ctx, label, flat)
                if ACCEPT in o:
                    return o, p
                outs |= o
            return outs, None
        if k == "tree":
            return self.match_tree(spec, v, ctx, outer_label=label, flat=flat)
        if k == "baretree":
            return {ACCEPT}, ctx
        raise ValueError(k)

    # -- PyTree[L] / PyTree[L, struct] ----------------------------------------------------------
    def match_tree(self, spec, v, ctx, outer_label=None, flat=False, top=True):
        v = unshare(v)
        if v["t"] == "none":
            return {ACCEPT}, ctx  # a top-level None is always accepted (and binds nothing)
        L = spec["leaf"]
        struct_s = spec.get("struct")
        if L == "any":
            is_leaf = lambda x: False  # noqa: E731
        else:
            is_leaf = lambda x: ACCEPT in self.leaf_match(L, x, ctx, None, True)[0]  # noqa: E731
        st, leaves = flatten(v, is_leaf)
        post = ctx.copy()
        outs_extra = set()
        if struct_s is not None:
            if outer_label is not None and outer_label != "":
                pass
            pieces = struct_s.split()
            if len(pieces) == 1 and pieces[0] != "...":
                name = pieces[0]
                if name in post.structs:
                    if post.structs[name] != st:
                        return {REJECT}, None
                else:
                    post.structs[name] = st
            else:
                prefix = pieces[-1] == "..."
                suffix = pieces[0] == "..."
                names = [p for p in pieces if p != "..."]
                if any(n not in post.structs for n in names):
                    return {ANNERR}, None
                named = LEAF
                for n in names:
                    named = compose(named, post.structs[n])
                if prefix:
                    ok = is_prefix(named, st)
                elif suffix:
                    ok = is_suffix(named, st)
                else:
                    ok = named == st
                if not ok:
                    return {REJECT}, None
        for i, leaf in enumerate(leaves):
            if struct_s is not None:
                if outer_label:
                    return {ANNERR}, None  # '?' scope would be ambiguous: two structured PyTrees
                label = f"(Leaf {i} in structure {struct_s}) "
            else:
                label = outer_label
            o, p = self.leaf_match(L, leaf, post, label, flat)
            if o != {ACCEPT}:
                return o | outs_extra, None
            post = p
        return {ACCEPT}, (ctx if flat else post)


def value_from_object(obj):
    """Real Python object (built from a PyTreeDef with dummy leaves) -> value spec (containers only)."""
    from .seams import NT, Node

    if obj is None:
        return {"t": "none"}
    if isinstance(obj, NT):
        return {"t": "nt", "c": [value_from_object(c) for c in obj]}
    if isinstance(obj, tuple):
        return {"t": "tuple", "c": [value_from_object(c) for c in obj]}
    if isinstance(obj, list):
        return {"t": "list", "c": [value_from_object(c) for c in obj]}
    if isinstance(obj, dict):
        return {"t": "dict", "c": [[k, value_from_object(c)] for k, c in sorted(obj.items())]}
    if isinstance(obj, Node):
        return {"t": "node", "c": [value_from_object(c) for c in obj.children]}
    return {"t": "int", "v": 0}


def struct_from_treedef(td):
    import jax.tree_util as jtu

    from . import seams

    with seams.quiet():
        obj = jtu.tree_unflatten(td, [0] * td.num_leaves)
    return struct_of(value_from_object(obj))
