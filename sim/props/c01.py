"""C01 -- an array check decides shape exactly as the dim-string language says.

Seeded histories of array checks inside nested checking contexts (context blocks and
jaxtyped(typechecker=None) calls that provide {argument} values); accepted, rejected and raising
checks are interleaved because 'every prior sequence of accepted checks that populated the context'
is reached through all of them.  Oracle: step-wise refinement against the reference model
(sim/model.py): before every check the model context is re-synchronised from the OBSERVED bindings,
the model returns the set of outcomes the texts permit and the post-state; the implementation's
outcome must be in the set and, on accept, print_bindings / the white-box memo must equal the model's
post-state."""

from .. import ctxsim, model, seams
from ..core import Stats, digest, rng, violation
from ..gen import Gen, assign_ids

PID = "C01"
LEVEL = "exploration"
ENGINE = "ctxsim"
REACH = ['reentrant_checks', 'history_shadow_judged', 'python_scalar_vs_union_array_type:accept', 'python_scalar_vs_union_array_type:reject', 'outcome:accept', 'outcome:reject', 'outcome:AnnotationError']  # counters (prefixes) that a healthy batch makes non-zero; gaps are reported in the evidence
BUDGET = {"quick": 35, "thorough": 600}
RULE = (
    "Seeded single-thread histories: nested jaxtyped('context') blocks and typechecker=None calls (arguments k, o "
    "for {k}/{o.n} symbolic axes) containing 3-14 isinstance checks each; dim strings of 0-5 tokens from the "
    "documented grammar (int, name, symbolic expression, '_', '...', '*name', with '#', '_', 'doc=' modifiers in "
    "either order, at most one multi-axis token at any position), numpy / duck arrays of rank 0-6 with sizes "
    "{0,1,2,3,4,5,7}, dtypes inside and outside the category, wrong array types, array types that are a union with a "
    "Python scalar type (Float[Union[np.ndarray, float], dims]: the scalar survives iff all axes are multi-axis) and Python scalars as values; values are chosen relative to a "
    "preferred assignment so that passes, late mismatches, broadcast cases and rank errors all occur.  Oracle: "
    "outcome in model outcome set; on accept bindings == model post-state.  distinct_nontrivial = distinct "
    "(token-class string, variadic-rule branch, pre-bound?, outcome) tuples."
)
ASSUMPTIONS = ["the reference model (sim/model.py, ~300 lines) is trusted; where the texts are silent it returns outcome sets",
               "deciding dimension is the operation history (state), not schedule or fault"]
COMPONENTS = {"real": ["jaxtyping array checks, _storage, decorator contexts", "numpy"], "stub": ["Duck arrays"]}
SYM = ("a+1", "2*a", "a-1", "a*b", "min(a,b)", "a+b", "{k}", "{o.n}+1", "{k}*a")


def _pref(r):
    return {"a": r.choice((0, 1, 2, 3)), "b": r.randrange(1, 5), "c": r.choice((1, 2, 5)), "n": r.randrange(1, 4),
            "m": 7, "*v": tuple(r.choice((1, 2, 3)) for _ in range(r.randrange(0, 4))),
            "*w": tuple(r.choice((1, 2)) for _ in range(r.randrange(0, 3)))}


def gen(seed, tier="quick"):
    r = rng(seed, "program")
    g = Gen(r, names=("a", "b", "c", "n", "m"), sizes=(0, 1, 2, 3, 4, 5, 7), var_names=("v", "w"), allow_sym=True,
            max_tokens=5, sym_exprs=list(SYM))
    k, n = r.randrange(1, 4), r.randrange(1, 4)
    fns = {"B": {"style": "none", "tc": "min", "kind": "fn", "params": [["k", None], ["o", None]], "ret": None}}

    def checks(pref, cnt):
        ops = []
        for _ in range(cnt):
            at = r.choice(("np", "np", "np", "duck", "any"))
            cat = r.choice(("Float", "Shaped", "Int", "Num", "Bool")) if r.random() > 0.08 else r.choice(("Struct1", "Struct2"))
            if cat.startswith("Struct"):
                at = "np"
            elif r.random() < 0.07:
                # a Python scalar type next to the array type, Float[Union[np.ndarray, float], dims]: the scalar type survives iff
                # every axis is a multi-axis specifier (and the category has such a dtype); a scalar binds nothing
                at = "np+" + r.choice(("float", "int", "bool"))
            toks = None
            if "+" in at and r.random() < 0.6:
                toks = r.choice(([], [g.token(True)], [{"kind": "anonvar", "dots": True}],
                                 [{"kind": "var", "name": r.choice(g.var_names), "b": r.random() < 0.3, "q": False, "order": 0}],
                                 [{"kind": "var", "name": r.choice(g.var_names), "b": False, "q": False, "order": 0}, g.token(False)],
                                 [g.token(False), {"kind": "anonvar", "dots": True}]))
            a = g.arr_ann(atype=at, dtype=cat, toks=toks)
            p = dict(pref)
            if r.random() < 0.25:  # drift: makes later uses disagree with earlier bindings
                nm = r.choice(("a", "b", "c", "n"))
                p[nm] = r.choice(g.sizes)
            if r.random() < 0.2:
                p["*v"] = tuple(r.choice((1, 2, 3)) for _ in range(r.randrange(0, 4)))
            vt = None
            x = r.random()
            if x < 0.05:
                vt = r.choice(("np", "duck", "str"))  # possibly the wrong array type
            if "+" in at and vt is None:
                vt = "np"
            val = g.arr_val(a, p, p_bad=r.choice((0.0, 0.05, 0.2)), vt=vt)
            if "+" in at and r.random() < 0.5:
                val = {"t": "py", "k": r.choice(("float", "int", "bool"))}
            if cat.startswith("Struct") and val["t"] == "np":
                val["d"] = r.choice(("struct1", "struct2", "struct1", "struct2", "float32"))
            if r.random() < 0.2:
                val = {"t": "pool", "v": val}  # the very same array object is checked again later, in other contexts
            ops.append({"op": "arr", "ann": a, "val": val})
            if val.get("t") == "duck" and r.random() < 0.2:
                # re-entrancy: the array's `.shape` property (its k-th read during this check) itself checks another array against
                # an annotation over the same axis names, in the same thread and context (lazy arrays, logging proxies, ...)
                a2 = g.arr_ann(atype="np", dtype="Shaped")
                p2 = dict(p)
                for nm2 in ("a", "b", "c", "n", "m"):
                    if r.random() < 0.5:
                        p2[nm2] = r.choice(g.sizes)
                ops[-1]["reentry"] = {"site": "duck.shape", "k": r.randrange(1, 5),
                                      "op": {"op": "arr", "ann": a2, "val": g.arr_val(a2, p2, p_bad=0.0, vt="np")}}
            elif r.random() < 0.12:
                ops.append(dict(ops[-1]))  # re-issue
            if r.random() < 0.1:
                ops.append({"op": "obs"})
        return ops

    def block(depth):
        pref = dict(_pref(r), **{"{k}": k, "{o.n}": n})
        ops = checks(pref, r.randrange(3, 15))
        if depth < 2 and r.random() < 0.5:
            ops.insert(r.randrange(len(ops) + 1), block(depth + 1))
        if r.random() < 0.6:
            return {"op": "call", "fn": "B", "args": [{"t": "int", "v": k}, {"t": "fmt", "v": n}], "kw": 0, "body": ops,
                    "ret": None, "exit": "ret"}
        return {"op": "ctx", "body": ops, "exit": "ret"}

    prog = [block(0) for _ in range(r.randrange(1, 3))]
    if r.random() < 0.3:
        prog += checks(_pref(r), r.randrange(1, 4))  # stateless checks at top level
    return {"engine": ENGINE, "property": PID, "seed": seed, "anns": g.anns, "fns": fns, "threads": assign_ids([prog])}


class Observer:
    def __init__(self, scn, stats):
        self.scn = scn
        self.stats = stats
        self.viol = []
        self.feats = set()
        self.pending = None
        self.hist = []
        self.shadow = None
        self.re_out = None

    def _args(self, run):
        for f in reversed(run.frames):
            if f["kind"] == "call":
                return dict(f["args"])
            if f["kind"] == "ctx":
                return {}
        return {}

    def pre(self, interp, run, op, path):
        if op["op"] in ("ctx", "call"):
            # history shadow (open loop): the bindings that the ACCEPTED checks of this block imply, see post()
            certain = op["op"] == "ctx" or all(a is None for _, a in self.scn["fns"][op["fn"]]["params"])
            self.hist.append({"ctx": model.Ctx(args={}), "certain": certain})
            return
        if op["op"] != "arr" or path.endswith(".re"):
            return  # (a re-entrant nested check is judged together with the check it interrupts, see post)
        self.re_out = None
        self.shadow = None
        if run.frames and self.hist and self.hist[-1]["certain"]:
            sctx = self.hist[-1]["ctx"].copy()
            sctx.args = self._args(run)
            try:
                self.shadow = model.match_array(self.scn["anns"][op["ann"]], op["val"], sctx)
            except Exception:
                self.hist[-1]["certain"] = False
        with seams.quiet():
            snap = ctxsim.snapshot()
            spec = self.scn["anns"][op["ann"]]
            if snap.get("wb"):
                ctx = model.Ctx.from_snapshot(snap, self._args(run))
                outs, post = model.match_array(spec, op["val"], ctx)
            else:
                # white-box memo unavailable: bindings from print_bindings(), outcome set = union over the unprinted flags
                self.stats.inc("judged_from_print_bindings_only")
                base = model.Ctx.from_text(ctxsim.bindings_text(), self._args(run))
                outs, post = set(), None
                for c in base.variants():
                    o, _ = model.match_array(spec, op["val"], c)
                    outs |= o
        self.pending = (snap, outs, post, bool(run.frames))

    def post(self, interp, run, op, path, out):
        if op["op"] in ("ctx", "call"):
            if self.hist:
                self.hist.pop()
            return
        if op["op"] == "arr" and path.endswith(".re"):
            self.re_out = (op, out)
            return
        if op["op"] != "arr" or self.pending is None:
            return
        snap0, outs, post, in_ctx = self.pending
        self.pending = None
        spec = self.scn["anns"][op["ann"]]
        got = "accept" if out is True else "reject" if out is False else (
            "AnnotationError" if out.get("exc") == "AnnotationError" else "exc")
        if op.get("reentry") and self.re_out is not None:
            # a nested check ran in the middle of this one (what each of them sees of the other's half-made bindings is unspecified)
            self.stats.inc("reentrant_checks")
            nop, nout = self.re_out
            if self.hist:
                self.hist[-1]["certain"] = False
            reentrant_in_ctx = in_ctx
            # (An oracle "two accepted checks of one context are jointly satisfiable" was tried here and withdrawn: the unchanged
            # code itself looks a variadic name up, THEN reads the shape -- where the nested check runs and binds the name -- and
            # then writes its own binding over it; 1 scenario in ~7000.  Nothing in the properties makes a check atomic with
            # respect to checks that user code makes from inside it, so inside a context the pair is not judged.)
            if reentrant_in_ctx:
                return
            # outside every context checks are stateless: the interrupted check is judged like any other (below)
        if in_ctx and self.hist:
            top = self.hist[-1]
            if self.shadow is None:
                if out is True:
                    top["certain"] = False
            else:
                s_outs, s_post = self.shadow
                if got in outs and got not in s_outs and top["certain"] and len(self.viol) < 3:
                    self.viol.append(violation(PID, "history-model", {
                        "path": path, "annotation": f"{spec['dtype']}[{spec['atype']}, {spec['dims']!r}]", "value": op["val"],
                        "what": "the verdict fits the bindings observed just before the check, but not the bindings that the accepted "
                                "checks of this block imply: an earlier operation of the block lost, added or changed a binding",
                        "bindings_observed_before": snap0.get("top"),
                        "bindings_implied_by_history": {"axes": top["ctx"].axes, "variadics": top["ctx"].variadics},
                        "history_model_allows": sorted(s_outs), "implementation": out},
                        sig={"oracle": "history-model", "got": got, "allowed": "+".join(sorted(s_outs))}))
                    top["certain"] = False
                elif out is True and s_outs == {"accept"} and s_post is not None:
                    top["ctx"] = s_post
                elif out is True or got not in s_outs:
                    top["certain"] = False
            self.stats.inc("history_shadow_judged" if self.shadow is not None else "history_shadow_uncertain")
        self.stats.inc("evaluations")
        self.stats.inc("outcome:" + got)
        if model.unshare(op["val"])["t"] == "py":
            self.stats.inc("python_scalar_vs_union_array_type:" + got)
        cls = "".join({"named": "n", "fixed": "f", "sym": "s", "anon": "_", "var": "*", "anonvar": "."}[t["kind"]] +
                      ("#" if t.get("b") else "") for t in model.parse_dims(spec["dims"]))
        vb = self._var_branch(spec, snap0)
        self.feats.add(f"{cls}|{vb}|{'ctx' if in_ctx else 'top'}|{got}")
        if got not in outs:
            if len(self.viol) < 3:
                self.viol.append(violation(PID, "model-outcome", {
                    "path": path, "annotation": f"{spec['dtype']}[{spec['atype']}, {spec['dims']!r}]", "value": op["val"],
                    "bindings_before": snap0.get("top"), "model_allows": sorted(outs), "implementation": out},
                    sig={"oracle": "model-outcome", "got": got, "allowed": "+".join(sorted(outs))}))
            return
        if got == "accept" and in_ctx and post is not None:
            with seams.quiet():
                snap1 = ctxsim.snapshot()
                text = ctxsim.bindings_text()
            if snap1.get("wb") and not post.same_bindings(snap1):
                if len(self.viol) < 3:
                    self.viol.append(violation(PID, "model-poststate", {
                        "path": path, "annotation": f"{spec['dtype']}[{spec['atype']}, {spec['dims']!r}]", "value": op["val"],
                        "bindings_before": snap0.get("top"), "model_after": {"axes": post.axes, "variadics": post.variadics},
                        "implementation_after": snap1.get("top")}, sig={"oracle": "model-poststate"}))
                return
            # black-box cross-check of the same thing through print_bindings
            want = {k: str(v) for k, v in post.axes.items()}
            want.update({k: str(tuple(sh)) for k, (b, sh) in post.variadics.items()})
            got_txt = {}
            for ln in text.splitlines():
                if "=" in ln and not ln.startswith("The current") and not ln.startswith("T="):
                    kk, vv = ln.split("=", 1)
                    got_txt[kk] = vv
            got_txt = {k: v for k, v in got_txt.items() if k in want or k not in post.structs}
            if {k: v for k, v in got_txt.items() if k not in post.structs} != want:
                if len(self.viol) < 3:
                    self.viol.append(violation(PID, "model-poststate", {"path": path, "what": "print_bindings disagrees with the model",
                                                                        "model": want, "printed": text},
                                               sig={"oracle": "model-poststate", "via": "print_bindings"}))

    def _var_branch(self, spec, snap0):
        for t in model.parse_dims(spec["dims"]):
            if t["kind"] == "var":
                top = snap0.get("top") or {"variadic": {}}
                prev = top["variadic"].get(t["name"])
                return f"{'unbound' if prev is None else ('prevB' if prev[0] else 'prevP')}:{'B' if t.get('b') else 'P'}"
        return "-"


def execute(scn):
    stats = Stats()
    obs = Observer(scn, stats)
    interp, runs, sc, states = ctxsim.run_threads(scn, scn["threads"], {"kind": "solo"}, rng(scn["seed"], "s"),
                                                  observer=obs, yield_on_seams=False)
    stats.inc("runs")
    return {"violations": obs.viol, "stats": stats.c, "features": sorted(obs.feats),
            "digest": digest([r.transcript for r in runs]),
            "sample": {"checks": stats.get("evaluations"),
                       "first_checks": [[scn["anns"][o["ann"]]["dims"], model.unshare(o["val"]).get("s")] for o in _flat(scn["threads"][0]) if o["op"] == "arr"][:6]}}


def _flat(ops):
    for o in ops:
        yield o
        if isinstance(o.get("body"), list):
            yield from _flat(o["body"])
