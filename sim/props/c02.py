"""C02 -- a checked call is accepted iff one consistent axis assignment exists.

A FAMILY is one seeded scenario (signature of 1-5 array-annotated parameters + return annotation,
argument/return shapes drawn from a random satisfying assignment and perturbed at 0-2 places) issued as
sibling calls: several parameter permutations (symbolic axes stay after their binders), positional vs
keyword passing, new-style vs old-style decorator, dataclass __init__, and each of typeguard / beartype /
the minimal checker.  Oracles: (1) every sibling's verdict is in the outcome set of the DECLARATIVE
satisfiability model (sim/model.py: call_model, which never walks parameters in order); (2) model-free:
all siblings of a family without symbolic axes agree with each other."""

from .. import ctxsim, model
from ..core import Stats, digest, rng, violation
from ..gen import Gen, assign_ids, dims_text

PID = "C02"
LEVEL = "exploration"
ENGINE = "ctxsim"
CHUNK = 4
REACH = ['verdict:accept', 'verdict:reject', 'sibling:new:tg', 'sibling:new:bt', 'sibling:old:tg', 'sibling:new:tg:dc']  # counters (prefixes) that a healthy batch makes non-zero; gaps are reported in the evidence
BUDGET = {"quick": 40, "thorough": 600}
RULE = (
    "Seeded call families: 1-5 parameters + return, tokens from {name, #name, int, #int, _, *v, *#v, ..., symbolic "
    "(return and last parameter only)}, shapes from a random satisfying assignment perturbed at 0-2 axes (size, "
    "rank, broadcast direction) or dtype/array type; siblings = up to 4 parameter permutations x {positional, "
    "keyword} x {new-style tg/bt/min, old-style tg/bt/min, dataclass}.  Oracles: sibling verdict in declarative "
    "model's outcome set; siblings agree (families without symbolic axes).  evaluations = sibling calls; "
    "distinct_nontrivial = distinct (token-class multiset of the signature, perturbation kind, model outcome set)."
)
ASSUMPTIONS = ["model trusted; deciding dimension is the in-call history (walk over parameters carrying the memo), no schedule/fault",
               "beartype may check parameters in its own order: only order-independent expectations are asserted"]
COMPONENTS = {"real": ["jaxtyping decorator + array checks", "typeguard", "beartype"], "stub": ["minimal checker", "Duck arrays"]}
STYLES = [("new", "tg"), ("new", "bt"), ("new", "min"), ("old", "tg"), ("old", "bt"), ("old", "min")]


def gen_family(r, sym_ok=True, ill_bias=0.5, var_names=("v",)):
    g = Gen(r, names=("a", "b", "c"), sizes=(0, 1, 2, 3, 4), var_names=var_names, allow_sym=False, max_tokens=3)
    n = r.randrange(1, 6)
    pref = {"a": r.choice((1, 2, 3, 0)), "b": r.randrange(1, 5), "c": r.randrange(1, 4),
            "*v": tuple(r.choice((1, 2, 3)) for _ in range(r.randrange(0, 3))), "{k}": 2}
    pref["*a"] = tuple(r.choice((1, 2)) for _ in range(r.randrange(0, 3)))  # '*a' and 'a' are different axes (separate namespaces)
    params = []
    for j in range(n):
        toks = g.dims(min_tokens=0)
        params.append({"name": f"x{j}", "toks": toks, "atype": r.choice(("np", "np", "np", "duck")),
                       "dtype": r.choice(("Float", "Float", "Shaped", "Num"))})
    if r.random() < 0.12:
        # parameters NAMED like axes (f(a: "a", b: "a+1")): a symbolic axis refers to the axis, never to the argument of that name
        for p, nm in zip(params, r.sample(["a", "b", "c"], min(3, len(params)))):
            p["name"] = nm
    bound = set()
    for p in params:
        for t in p["toks"]:
            if t["kind"] == "named" and not t.get("b"):
                bound.add(t["name"])
    has_sym = False
    ret_toks = g.dims()
    if sym_ok and bound and r.random() < 0.5:
        nm = sorted(bound)
        expr = r.choice([f"{nm[0]}+1", f"2*{nm[0]}", f"{nm[0]}*{nm[-1]}", "{k}", f"{nm[0]}+{{k}}"])
        ret_toks = [t for t in ret_toks if t["kind"] not in ("var", "anonvar")][:2] + [{"kind": "sym", "expr": expr, "b": r.random() < 0.2}]
        has_sym = True
    if sym_ok and r.random() < 0.2:
        # self-contained chain inside ONE annotation: name, symbolic axis, a name first bound inside this annotation, symbolic
        # axis using it -- valid under every parameter permutation because every name is bound before its use
        names = ["a", "b", "c"]
        x, y = r.sample(names, 2)
        chain = [{"kind": "named", "name": x, "b": False}, {"kind": "sym", "expr": r.choice((f"{x}+1", f"2*{x}")), "b": False},
                 {"kind": "named", "name": y, "b": False}, {"kind": "sym", "expr": r.choice((f"{y}+1", f"{x}*{y}", f"{x}+{y}")), "b": False}]
        if r.random() < 0.5:
            ret_toks = chain
        else:
            params[r.randrange(len(params))]["toks"] = chain
        has_sym = True
    kwdep = None
    if sym_ok and n >= 2 and r.random() < 0.1:
        # one parameter's only axis is a symbolic function of a name that ANOTHER parameter binds: siblings keep the binder before
        # the dependent one in the signature; some declare both keyword-only, the binder with a default value
        i, j = r.sample(range(n), 2)
        x = r.choice(("a", "b", "c"))
        if not any(t["kind"] == "named" and t["name"] == x and not t.get("b") for t in params[i]["toks"]):
            params[i]["toks"] = [{"kind": "named", "name": x, "b": False}]
        params[j]["toks"] = [{"kind": "sym", "expr": r.choice((f"{x}+1", f"2*{x}")), "b": False}]
        kwdep = {"binder": i, "dep": j}
        has_sym = True
    ret = {"toks": ret_toks, "atype": r.choice(("np", "np", "duck")), "dtype": r.choice(("Float", "Shaped"))}
    vals = []
    for p in params + [ret]:
        vt = "np" if p["atype"] == "np" else "duck"
        vals.append({"t": vt, "s": g.shape_for(p["toks"], pref, p_bad=0.0, p_rank=0.0), "d": "float32"})
    # perturbations
    kinds = []
    if r.random() < ill_bias:
        for _ in range(r.choice((1, 1, 2))):
            i = r.randrange(len(vals))
            x = r.random()
            if x < 0.6 and vals[i]["s"]:
                j = r.randrange(len(vals[i]["s"]))
                vals[i]["s"][j] = r.choice((0, 1, 2, 3, 4, 5))
                kinds.append("size@ret" if i == len(vals) - 1 else "size")
            elif x < 0.75:
                if vals[i]["s"] and r.random() < 0.5:
                    vals[i]["s"].pop(r.randrange(len(vals[i]["s"])))
                else:
                    vals[i]["s"].insert(r.randrange(len(vals[i]["s"]) + 1), r.choice((1, 2)))
                kinds.append("rank")
            elif x < 0.88:
                vals[i]["d"] = r.choice(("int32", "bool", "float64"))
                kinds.append("dtype")
            else:
                vals[i]["t"] = "duck" if vals[i]["t"] == "np" else "np"
                kinds.append("arraytype")
    # a second, consistent value set under a PERMUTED assignment (the sizes of a, b, c rotated): some siblings are called with
    # it, so that the same expression text is evaluated under memos with equal sizes in equal order but different names
    rot = {"a": pref["b"], "b": pref["c"], "c": pref["a"], "*v": pref["*v"], "*a": pref["*a"], "{k}": 2}
    vals2 = []
    for p in params + [ret]:
        vt = "np" if p["atype"] == "np" else "duck"
        vals2.append({"t": vt, "s": g.shape_for(p["toks"], rot, p_bad=0.0, p_rank=0.0), "d": "float32"})
    return {"params": params, "ret": ret, "vals": vals, "vals2": vals2, "has_sym": has_sym, "perturb": sorted(kinds) or ["none"], "k": 2,
            "kwdep": kwdep}


def family_scenario(seed, fam, r, max_perms=4, styles_per_perm=3, with_dc=True, only_new=False, same_name=False):
    anns, fns, ops, sibs = {}, {}, [], []
    aid = {}

    def ann_of(p):
        key = (p["dtype"], p["atype"], dims_text(p["toks"]))
        if key not in aid:
            aid[key] = f"A{len(aid)}"
            anns[aid[key]] = {"k": "arr", "dtype": p["dtype"], "atype": p["atype"], "dims": key[2], "toks": p["toks"]}
        return aid[key]

    n = len(fam["params"])
    perms = [list(range(n))]
    for _ in range(max_perms - 1):
        q = list(range(n))
        r.shuffle(q)
        if q not in perms:
            perms.append(q)
    kd = fam.get("kwdep")
    if kd:
        for q in perms:  # the binder stays before the dependent parameter
            bi, di = q.index(kd["binder"]), q.index(kd["dep"])
            if bi > di:
                q[bi], q[di] = q[di], q[bi]
    need_k = any("{k}" in t.get("expr", "") for t in fam["ret"]["toks"])
    for pi, perm in enumerate(perms):
        choices = [s for s in STYLES if s[0] == "new"] if only_new else STYLES
        for (style, tc) in r.sample(choices, min(styles_per_perm, len(choices))):
            fid = f"F{len(fns)}"
            params = [[fam["params"][j]["name"], ann_of(fam["params"][j])] for j in perm]
            if need_k:
                params.insert(r.randrange(len(params) + 1), ["k", None])
            vset = 1 if (fam.get("vals2") and r.random() < 0.3) else 0
            V = fam["vals2"] if vset else fam["vals"]
            args = [({"t": "int", "v": fam["k"]} if nm == "k" else V[[p["name"] for p in fam["params"]].index(nm)])
                    for nm, _ in params]
            fns[fid] = {"style": style, "tc": tc, "kind": "fn", "params": params, "ret": ann_of(fam["ret"])}
            if kd and r.random() < 0.6:
                # keyword-only from the binder on; the binder has a default: def f(x0, *, x1: "a" = <array>, x2: "a+1")
                pnames = [nm for nm, _ in params]
                bname = fam["params"][kd["binder"]]["name"]
                bpos = pnames.index(bname)
                fns[fid]["kwonly"] = bpos
                fns[fid]["defaults"] = {bname: V[kd["binder"]]}
                # (the argument is always passed explicitly: typecheckers do not check default values, so an omitted binder
                # binds nothing and the dependent axis is then legitimately an AnnotationError)
            elif r.random() < 0.15:
                fns[fid]["posonly"] = r.randrange(1, len(params) + 1)  # def f(x0, x1, /, x2): one more calling convention
            if same_name:
                # redefinitions of 'the same' function: one name, parameters named by POSITION, so that the same
                # parameter name carries different annotations in different siblings
                fns[fid]["pyname"] = "fam"
                fns[fid]["params"] = [[(f"p{j}" if nm != "k" else "k"), a] for j, (nm, a) in enumerate(params)]
            kw = r.choice((0, 2, 1))
            ops.append({"op": "call", "fn": fid, "args": args, "kw": kw, "body": [], "ret": V[-1], "exit": "ret"})
            sibs.append({"fn": fid, "perm": perm, "style": style, "tc": tc, "kw": kw, "with_ret": True, "vset": vset})
    if with_dc and not need_k:
        fid = f"F{len(fns)}"
        perm = perms[-1]
        params = [[fam["params"][j]["name"], ann_of(fam["params"][j])] for j in perm]
        fns[fid] = {"style": "new", "tc": r.choice(("tg", "bt")), "kind": "dc", "params": params, "ret": None}
        ops.append({"op": "call", "fn": fid, "args": [fam["vals"][j] for j in perm], "kw": r.choice((0, 2)), "body": [], "ret": None,
                    "exit": "ret"})
        sibs.append({"fn": fid, "perm": perm, "style": "new", "tc": fns[fid]["tc"], "kw": 0, "with_ret": False, "dc": True})
    return {"engine": ENGINE, "seed": seed, "anns": anns, "fns": fns, "threads": assign_ids([ops]), "family": fam, "siblings": sibs}


def gen(seed, tier="quick"):
    r = rng(seed, "program")
    fam = gen_family(r)
    scn = family_scenario(seed, fam, r)
    scn["property"] = PID
    return scn


def verdict(out):
    if isinstance(out, dict) and "exc" in out:
        return "AnnotationError" if out["exc"] == "AnnotationError" else "reject"
    return "accept"


def family_model(scn, vset=0):
    fam = scn["family"]
    V = fam["vals2"] if vset else fam["vals"]
    pitems = []
    for p, v in zip(fam["params"], V[:-1]):
        pitems.append(({"atype": p["atype"], "dtype": p["dtype"], "dims": dims_text(p["toks"])}, v))
    ritem = ({"atype": fam["ret"]["atype"], "dtype": fam["ret"]["dtype"], "dims": dims_text(fam["ret"]["toks"])}, V[-1])
    args = {"k": fam["k"]}
    return model.call_model(pitems, ritem, args), model.call_model(pitems, None, args)


def execute(scn):
    stats = Stats()
    interp, runs, sc, states = ctxsim.run_threads(scn, scn["threads"], {"kind": "solo"}, rng(scn["seed"], "s"), yield_on_seams=False)
    outs = [t for t in runs[0].transcript if t[1] == "call"]
    full, ponly = family_model(scn)
    models = {0: (full, ponly)}
    if scn["family"].get("vals2"):
        models[1] = family_model(scn, 1)
    viols = []
    verdicts = []
    for sib, (path, _, out) in zip(scn["siblings"], outs):
        v = verdict(out)
        verdicts.append(v)
        mf, mp_ = models[sib.get("vset", 0)]
        allowed = mf if sib["with_ret"] else mp_
        stats.inc("evaluations")
        stats.inc(f"sibling:{sib['style']}:{sib['tc']}{':dc' if sib.get('dc') else ''}")
        stats.inc("verdict:" + v)
        if v not in allowed and len(viols) < 3:
            fam = scn["family"]
            viols.append(violation(PID, "model-verdict", {
                "sibling": sib, "signature": [[p["name"], dims_text(p["toks"]), p["atype"], p["dtype"]] for p in fam["params"]],
                "return": [dims_text(fam["ret"]["toks"]), fam["ret"]["atype"], fam["ret"]["dtype"]], "values": fam["vals"],
                "model_allows": sorted(allowed), "implementation": out},
                sig={"oracle": "model-verdict", "got": v, "allowed": "+".join(sorted(allowed))}))
    if not scn["family"]["has_sym"]:
        wr = {v for s, v in zip(scn["siblings"], verdicts) if s["with_ret"] and not s.get("vset")}
        if len(wr) > 1 and len(viols) < 3:
            viols.append(violation(PID, "siblings-agree", {"verdicts": [[s["perm"], s["style"], s["tc"], s["kw"], v]
                                                                         for s, v in zip(scn["siblings"], verdicts)]},
                                   sig={"oracle": "siblings-agree"}))
    stats.inc("runs")
    fam = scn["family"]
    cls = sorted("".join({"named": "n", "fixed": "f", "sym": "s", "anon": "_", "var": "*", "anonvar": "."}[t["kind"]] + ("#" if t.get("b") else "")
                         for t in p["toks"]) for p in fam["params"] + [fam["ret"]])
    return {"violations": viols, "stats": stats.c, "features": [digest([cls, fam["perturb"], sorted(full)])],
            "digest": digest([verdicts]),
            "sample": {"signature": [dims_text(p["toks"]) for p in fam["params"]], "return": dims_text(fam["ret"]["toks"]),
                       "shapes": [v["s"] for v in fam["vals"]], "perturb": fam["perturb"], "model": sorted(full),
                       "siblings": len(scn["siblings"]), "verdicts": verdicts}}
