"""C04 -- a failed or raising check binds nothing; a passing check is idempotent.

The binding store is treated as a transactional store: a check is a transaction that mutates the
live dicts in place and relies on snapshot/restore.  Per seeded scenario (context state reached by a
prefix of checks, a target check, a continuation of follow-up checks) the simulator runs
  * the fault-free target, and
  * EVERY single fault (call-out site, k-th occurrence, exception class) during the target
    (a dry run counts the call-outs first),
and evaluates three differential oracles:
  before=after : observation (white-box memo incl. broadcast flags, structure bindings, argument memo
                 + print_bindings text) before a check that returned False or raised == after;
  twice        : a check that returned True, re-issued, returns True and changes nothing;
  continuation : the follow-up checks behave exactly as in a sibling context that replays only the
                 prefix (target failed/raised) or the prefix and the target once (target passed)."""

import copy

import jaxtyping
from jaxtyping import jaxtyped

from .. import ctxsim, seams
from ..core import Stats, digest, rng, violation
from ..gen import Gen

PID = "C04"
LEVEL = "fault_enumeration"
ENGINE = "ctxsim"
CHUNK = 4
RULE = (
    "Scenario = (prefix of checks inside a jaxtyped(typechecker=None) call with arguments k, o; target "
    "array or PyTree check on duck arrays / registered nodes / metaclass leaves; continuation of 2-6 "
    "follow-up checks biased to the names the target touches).  Scenarios are seeded; per scenario the "
    "single-fault space {site} x {1..N_site} x {RuntimeError, TypeError, AnnotationError, "
    "KeyboardInterrupt, SystemExit, GeneratorExit, Abort} is exhausted.  evaluations = variants executed "
    "(fault-free + faulted); distinct_nontrivial = distinct (target kind, site, k, exception class, "
    "outcome class) placements whose fault actually fired, plus distinct fault-free (kind, outcome) cells."
)
REACH = ['fault_fired:duck.shape', 'fault_fired:duck.dtype', 'fault_fired:atype.instancecheck', 'fault_fired:leaf.instancecheck', 'fault_fired:node.flatten', 'fault_fired:node.unflatten', 'fault_fired:fmt.attr', 'fault_fired:fmt.format', 'faultfree:arr:False', 'faultfree:tree:False', 'faultfree:arr:raise', 'faultfree:tree:raise']  # counters (prefixes) that a healthy batch makes non-zero; gaps are reported in the evidence
BUDGET = {"quick": 40, "thorough": 600}
ASSUMPTIONS = [
    "faults are exceptions thrown from code jaxtyping calls (array attributes, metaclass __instancecheck__, "
    "flatten functions, __format__/attribute access inside {..}); asynchronous exceptions between two "
    "bytecodes of jaxtyping's own frames are outside the model",
    "single faults are enumerated exhaustively per scenario; scenarios are sampled",
]
COMPONENTS = {"real": ["jaxtyping array/PyTree checks, _storage", "vendored typeguard", "jax.tree_util"],
              "stub": ["Duck/MDuck arrays, Leaf metaclass, Node flatten, FmtObj (harness-owned call-out sites)"]}

SYM = ("a+1", "2*a", "a*b", "6//a", "{k}", "{o.n}+1", "{o}", "a+{k}", "zz+1")


# ------------------------------------------------------------------------------------------
def gen(seed, tier="quick"):
    scn = _gen(seed)
    # thorough tier: besides every single fault, a seeded sample of fault PAIRS (the first one may be swallowed by the leaf
    # matcher or hit the prefix, the second lands in the work that follows)
    scn["pairs"] = 24 if tier == "thorough" else 3
    return scn


def _gen(seed):
    r = rng(seed, "program")
    g = Gen(r, names=("a", "b", "c"), sizes=(0, 1, 2, 3, 4), var_names=("v", "w"), allow_sym=True, max_tokens=5,
            sym_exprs=list(SYM))
    k = r.randrange(1, 4)
    n = r.randrange(1, 4)
    pref = {"a": r.choice((0, 1, 2, 3)), "b": r.randrange(1, 4), "c": r.randrange(1, 4),
            "*v": tuple(r.choice((1, 2, 3)) for _ in range(r.randrange(0, 3))),
            "*w": tuple(r.choice((1, 2)) for _ in range(r.randrange(0, 2))),
            "{k}": k, "{o.n}": n, "{o}": n, "n": r.randrange(1, 4)}
    kind = "arr" if r.random() < 0.55 else "tree"
    prefix = []
    for _ in range(r.randrange(0, 4)):
        a = g.arr_ann(atype=r.choice(("np", "duck", "any")))
        prefix.append({"op": "arr", "ann": a, "val": g.arr_val(a, pref, p_bad=0.0)})
    if kind == "arr":
        a = g.arr_ann(atype=r.choice(("duck", "duck", "mduck", "any")), min_tokens=1)
        vt = {"duck": "duck", "mduck": "mduck", "any": "duck"}[g.anns[a]["atype"]]
        # p_bad: mismatch lands on a uniformly random axis (first, last, suffix, inside the variadic)
        target = {"op": "arr", "ann": a, "val": g.arr_val(a, pref, p_bad=r.choice((0.0, 0.0, 0.2, 0.4)), vt=vt)}
        touched = g.anns[a]["toks"]
        if r.random() < 0.4:
            # structure names bound earlier in the same context: an ARRAY check that fails or raises must leave them alone too
            for nm in ("T", "S"):
                if r.random() < 0.6:
                    ta = g.add_ann({"k": "tree", "leaf": "int", "struct": nm})
                    prefix.append({"op": "tree", "ann": ta, "val": g.fill_tree(g.tree_shape(r.randrange(0, 3), 4, node_ok=False),
                                                                              lambda i: {"t": "int", "v": i})})
    else:
        gq = Gen(r, names=("a", "b", "n"), sizes=(1, 2, 3), var_names=("v",), allow_sym=True, allow_q=True,
                 max_tokens=3, sym_exprs=["a+1", "{k}", "zz+1"])
        gq.anns, gq._ann_index = g.anns, g._ann_index
        struct = r.choice(("T", "T", "T", None, "S T", "T ...", "... T"))
        lk = r.random()
        if lk < 0.65:
            leaf = gq.arr_ann(atype=r.choice(("duck", "duck", "mduck")), q_ok=struct is not None, min_tokens=1, dtype="Float")
            touched = g.anns[leaf]["toks"]
        elif lk < 0.78:
            leaf, touched = "leaf", []
        elif lk < 0.9:
            leaf, touched = "int", []
        else:
            # a STRUCTURED PyTree as the leaf type of a structure-less one: flattening itself binds the inner structure
            # name (is_leaf runs the inner check), so a later failure of the outer check must unbind it again
            leaf, touched = g.add_ann({"k": "tree", "leaf": "int", "struct": r.choice(("S", "T"))}), []
            struct = None
        tann = g.add_ann({"k": "tree", "leaf": leaf, "struct": struct})
        skel = g.tree_shape(r.randrange(1, 4), 6, node_ok=True)
        bad_at = r.randrange(0, 8) if r.random() < 0.6 else -1

        def leaf_val(i):
            if leaf == "leaf":
                return {"t": "leaf"} if i != bad_at else {"t": "int", "v": 1}
            if leaf == "int":
                return {"t": "int", "v": i} if i != bad_at else {"t": "str", "v": "x"}
            if g.anns.get(leaf, {}).get("k") == "tree":
                return {"t": "tuple", "c": [{"t": "int", "v": i}, {"t": "int", "v": 0}]} if i != bad_at else \
                    r.choice(({"t": "str", "v": "x"}, {"t": "tuple", "c": [{"t": "int", "v": 1}, {"t": "str", "v": "y"}]},
                              {"t": "list", "c": [{"t": "int", "v": 1}]}))
            spec = g.anns[leaf]
            vt = "mduck" if spec["atype"] == "mduck" else "duck"
            p = dict(pref, n=pref["n"] + (i % 2))
            return g.arr_val(leaf, p, p_bad=(1.0 if i == bad_at else 0.0), vt=vt)

        target = {"op": "tree", "ann": tann, "val": g.fill_tree(skel, leaf_val)}
        # sometimes bind T (and S) beforehand to the same or a different structure
        if struct is not None and r.random() < 0.6:
            for nm in ("T", "S"):
                if nm in struct.split() or r.random() < 0.3:
                    sk2 = skel if (r.random() < 0.5 and nm == "T") else g.tree_shape(r.randrange(0, 3), 4, node_ok=False)
                    ta = g.add_ann({"k": "tree", "leaf": "int", "struct": nm})
                    prefix.append({"op": "tree", "ann": ta, "val": g.fill_tree(sk2, lambda i: {"t": "int", "v": i})})
    # continuation: re-use the names the target touches with perturbed sizes
    cont = []
    pref2 = dict(pref)
    for nm in ("a", "b", "c", "n"):
        if r.random() < 0.5:
            pref2[nm] = pref[nm] + 1
    if r.random() < 0.5:
        pref2["*v"] = pref["*v"] + (2,)
    for _ in range(r.randrange(2, 6)):
        x = r.random()
        if x < 0.7:
            toks = []
            for t in touched:
                if t["kind"] in ("named", "var") and not t.get("q") and r.random() < 0.7:
                    toks.append(dict(t, b=(r.random() < 0.3)))
            if not toks or r.random() < 0.3:
                toks = g.dims()
            toks = _one_var(toks)
            a = g.arr_ann(atype="np", toks=toks, dtype="Shaped")
            cont.append({"op": "arr", "ann": a, "val": g.arr_val(a, r.choice((pref, pref2)), p_bad=0.1)})
        elif x < 0.85:
            ta = g.add_ann({"k": "tree", "leaf": "int", "struct": r.choice(("T", "S", "T ...", "S T"))})
            cont.append({"op": "tree", "ann": ta, "val": g.fill_tree(g.tree_shape(r.randrange(0, 3), 4, node_ok=False),
                                                                    lambda i: {"t": "int", "v": i})})
        else:
            cont.append({"op": "obs"})
    cont.append({"op": "obs"})
    return {"engine": ENGINE, "property": PID, "seed": seed, "anns": g.anns, "fns": {}, "k": k, "n": n,
            "prefix": prefix, "target": target, "cont": cont, "faults": "enumerate"}


def _one_var(toks):
    out, seen = [], False
    for t in toks:
        if t["kind"] in ("var", "anonvar"):
            if seen:
                continue
            seen = True
        out.append(t)
    return out


# ------------------------------------------------------------------------------------------
@jaxtyped(typechecker=None)
def _block(k, o, thunk):
    return thunk()


def _obs():
    with seams.quiet():
        s = ctxsim.snapshot()
        t = ctxsim.bindings_text()
    # C04 speaks about BINDINGS only: the flatten-mode flag and the '?' label belong to C12
    s.pop("treepath", None)
    s.pop("treeflatten", None)
    return s, t


def _do(I, op):
    return getattr(I, "op_" + op["op"])(op, "x")


def _outcome_class(out):
    if out is True:
        return "True"
    if out is False:
        return "False"
    return "raise:" + out.get("exc", "?")


def _variant(d, scn, plan, run_target=True, twice=False):
    """Runs prefix, target (under the fault plan), continuation inside one block.  Returns record."""
    I = d.interp
    rec = {}

    def inside():
        d.reset_faults({})
        for op in scn["prefix"]:
            _do(I, op)
        if run_target:
            rec["before"] = _obs()
            d.reset_faults(plan)
            rec["out"] = _do(I, scn["target"])
            rec["fired"] = list(d.state.fired)
            rec["counts"] = dict(d.state.counts)
            d.reset_faults({})
            rec["after"] = _obs()
            if twice and rec["out"] is True:
                rec["out2"] = _do(I, scn["target"])
                rec["after2"] = _obs()
        cont = []
        for op in scn["cont"]:
            cont.append(_do(I, op))
        rec["cont"] = cont
        seams.take_output()

    _block(scn["k"], seams.FmtObj(scn["n"]), inside)
    return rec


def execute(scn):
    return ctxsim.in_fresh_thread(_execute, scn)


def _execute(scn):
    stats = Stats()
    feats = set()
    viols = []
    d = ctxsim.Direct(scn)
    kind = scn["target"]["op"]
    try:
        dry = _variant(d, scn, {}, twice=True)
        sib_skip = _variant(d, scn, {}, run_target=False)["cont"]
        sib_once = dry["cont"] if dry["out"] is not True else _variant(d, scn, {})["cont"]
        if scn["faults"] == "enumerate":
            plans = [None]
            for site, n in sorted(dry["counts"].items()):
                for k in range(1, n + 1):
                    for exc in seams.EXC_ALL:
                        plans.append({"site": site, "k": k, "exc": exc})
            singles = [p for p in plans if p]
            pr = rng(scn["seed"], "pairs")
            for _ in range(min(scn.get("pairs", 0), len(singles) * (len(singles) - 1) // 2)):
                a, b = pr.sample(singles, 2)
                if (a["site"], a["k"]) != (b["site"], b["k"]):
                    plans.append([a, b])
        else:
            plans = scn["faults"] or [None]
        for vi, p in enumerate(plans):
            if vi % 50 == 49:
                from ..core import gc_point

                gc_point()
            if p is None:
                rec = dry
                plan = {}
            elif isinstance(p, list):
                plan = {(q["site"], q["k"]): q["exc"] for q in p}
                rec = _variant(d, scn, plan, twice=True)
                stats.inc("double_fault_variants")
                p = dict(p[-1], pair=p)
            else:
                plan = {(p["site"], p["k"]): p["exc"]}
                rec = _variant(d, scn, plan, twice=True)
            stats.inc("evaluations")
            oc = _outcome_class(rec["out"])
            fired = bool(rec["fired"])
            if p is None:
                stats.inc(f"faultfree:{kind}:{oc.split(':')[0]}")
                feats.add(f"{kind}|none|{oc}")
            elif fired:
                stats.inc(f"fault_fired:{p['site']}:{p['exc']}")
                stats.inc("faults_fired")
                feats.add(f"{kind}|{p['site']}|{p['k']}|{p['exc']}|{oc}")
            else:
                stats.inc("faults_planned_not_reached")
            base = {"target": kind, "site": p["site"] if p else None,
                    "fault_class": (None if p is None else "base" if p["exc"] in seams.EXC_BASE else "ordinary"),
                    "outcome": oc.split(":")[0]}
            v = None
            if rec["out"] is True and fired:
                # the check passed although user code raised once inside it (typeguard's leaf matcher swallows TypeError):
                # the re-issue runs WITHOUT that fault, so it is not a repetition of the same check -- nothing to compare
                stats.inc("passed_despite_fault")
            elif rec["out"] is True:
                if rec.get("out2") is not True:
                    v = violation(PID, "twice", {"what": "a passing check, re-issued, did not pass", "first": rec["out"],
                                                 "second": rec.get("out2"), "fault": p}, sig=dict(base, oracle="twice"))
                elif rec["after2"] != rec["after"]:
                    v = violation(PID, "twice", {"what": "re-issuing a passing check changed the bindings",
                                                 "after_first": rec["after"], "after_second": rec["after2"], "fault": p},
                                  sig=dict(base, oracle="twice"))
                elif not fired and rec["cont"] != sib_once:
                    v = violation(PID, "continuation", {"what": "follow-up checks differ after the check was issued twice vs once",
                                                        "twice": rec["cont"], "once": sib_once},
                                  sig=dict(base, oracle="continuation"))
            else:
                if rec["before"] != rec["after"]:
                    v = violation(PID, "before=after",
                                  {"what": "a check that returned False / raised changed the bindings", "outcome": rec["out"],
                                   "before": rec["before"], "after": rec["after"], "fault": p,
                                   "target": {"ann": scn["anns"][scn["target"]["ann"]].get("dims", scn["anns"][scn["target"]["ann"]]),
                                              "val": scn["target"]["val"]}},
                                  sig=dict(base, oracle="before=after"))
                elif rec["cont"] != sib_skip:
                    v = violation(PID, "continuation",
                                  {"what": "follow-up checks differ from a sibling context that never saw the failed check",
                                   "outcome": rec["out"], "after_failed_check": rec["cont"], "sibling": sib_skip, "fault": p},
                                  sig=dict(base, oracle="continuation"))
            if v is not None:
                v["fault"] = p
                viols.append(v)
                if len(viols) >= 40:
                    break
    finally:
        d.close()
    stats.inc("runs")
    stats.inc("scenarios:" + kind)
    # keep one violation per signature (the runner reports the first unknown one)
    seen, uniq = set(), []
    for v in viols:
        key = repr(sorted(v["sig"].items()))
        if key not in seen:
            seen.add(key)
            uniq.append(v)
    return {"violations": uniq, "stats": stats.c, "features": sorted(feats),
            "digest": digest([dry["out"], dry["cont"], [v["sig"] for v in uniq]]),
            "sample": {"target": scn["target"], "ann": scn["anns"][scn["target"]["ann"]].get("dims", scn["anns"][scn["target"]["ann"]]),
                       "callouts": dry["counts"], "variants": len(plans), "faultfree_outcome": _outcome_class(dry["out"])}}


def concretise(scn, res):
    """Pin the scenario to the single fault of the first violation (replay runs exactly that)."""
    s = copy.deepcopy(scn)
    for v in res["violations"]:
        f = v.get("fault")
        s["faults"] = [f["pair"] if (f and f.get("pair")) else f]
        break
    return s
