"""C05 -- bindings live exactly as long as one jaxtyped call or context block.

Oracles (per block = decorated call or context block, at every depth, for every exit kind):
  entry      : on entry the block sees only what its own parameter checks created (white-box: depth =
               caller's + 1, argument memo = own parameters; bindings = those implied by its own
               arguments; black-box: print_bindings agrees, {k} probes see the callee's k);
  before=after: the caller's observation (white-box snapshot + print_bindings text) immediately after
               the block equals the one immediately before, however the block ended;
  verdict    : a call whose own arguments are mutually consistent succeeds whatever the caller has
               bound (names collide on purpose with different sizes), an inconsistent one is rejected,
               a non-binding one raises the ordinary TypeError without running the body;
  top-level  : outside every context checks are stateless and print_bindings prints nothing;
  generator  : a generator-producing call leaves the stack as it found it and the generator body,
               when resumed later, observes the bindings of the block that resumes it."""

from .. import ctxsim, model, seams
from ..core import Stats, digest, rng, violation
from ..gen import Gen, assign_ids

PID = "C05"
LEVEL = "exploration"
ENGINE = "ctxsim"
MIN_THREADS = 1
RULE = (
    "Seeded single-thread programs: trees of blocks (jaxtyped('context'), new-style / old-style / "
    "typechecker=None calls on functions, methods, classmethods, staticmethods, dataclass __init__, "
    "generator functions; typeguard/beartype/minimal checker) nested to depth 4 with manual isinstance "
    "checks, print_bindings and {k} probes between them; each block has its own size assignment over the "
    "SAME axis names; exits: return, Exception/BaseException raised by the body, non-binding call, 0-2 "
    "injected faults (typechecker call, array shape/dtype read, body entry; 7 exception classes). "
    "Oracles: entry / before=after / verdict / top-level / generator (see module docstring). "
    "distinct_nontrivial = distinct (wrapper flavour, exit kind, depth) cells x outcome reached."
)
REACH = ['cell:ctx|return', 'cell:ctx|exc:KeyboardInterrupt', 'cell:new:tg:fn|return', 'cell:old:', 'cell:none:', 'cell:new:bt:dc', 'fault_fired:tc.call', 'fault_fired:duck.shape', 'fault_fired:body']  # counters (prefixes) that a healthy batch makes non-zero; gaps are reported in the evidence
BUDGET = {"quick": 40, "thorough": 600}
ASSUMPTIONS = [
    "faults originate in code jaxtyping calls (body, typechecker, array attributes), not between two bytecodes of its own wrapper",
    "white-box reads of _storage._shape_storage.memo_stack are used when available (falls back to print_bindings text)",
]
COMPONENTS = {"real": ["jaxtyping (all of it)", "typeguard 2.13", "beartype", "numpy"],
              "stub": ["Duck arrays (harness-owned array-likes)", "minimal typechecker"]}

EXITS = ("ValueError", "AnnotationError", "KeyboardInterrupt", "SystemExit", "GeneratorExit", "Abort")
REJECT_NAMES = ("TypeCheckError", "TypeError", "BeartypeCallHintParamViolation", "BeartypeCallHintReturnViolation")


# ------------------------------------------------------------------------------------------
def _pref(r):
    return {"a": r.randrange(1, 6), "b": r.randrange(1, 6), "c": r.randrange(1, 6)}


def gen(seed, tier="quick"):
    r = rng(seed, "program")
    g = Gen(r, names=("a", "b", "c"), sizes=(1, 2, 3, 4, 5), allow_sym=False, max_tokens=3)
    arrs = []
    for _ in range(r.randrange(3, 7)):
        n = r.randrange(1, 4)
        toks = []
        for _ in range(n):
            if r.random() < 0.8:
                toks.append({"kind": "named", "name": r.choice(g.names), "b": False, "q": False})
            else:
                toks.append({"kind": "fixed", "size": r.choice((2, 3)), "b": False})
        arrs.append(g.arr_ann(atype=r.choice(("np", "np", "duck")), dtype="Float", toks=toks))
    fns = {}
    nf = r.randrange(3, 7)
    for i in range(nf):
        style = r.choice(("new", "new", "new", "old", "none"))
        kind = "fn"
        if style == "new":
            kind = r.choice(("fn", "fn", "method", "cm_outer", "cm_inner", "sm_outer", "dc", "gen", "coro", "wrapgen"))
        elif style == "none":
            kind = r.choice(("fn", "fn", "method", "gen", "coro"))
        params = [[f"x{j}", r.choice(arrs)] for j in range(r.randrange(1, 4))]
        unannotated = r.random() < 0.2  # nothing for the typechecker to do: the context must exist all the same
        if unannotated:
            params = [[f"x{j}", None] for j in range(r.randrange(0, 2))]
        defaults = {}
        if r.random() < 0.5:
            params.append(["k", None])
            if r.random() < 0.4 and kind != "dc":
                defaults["k"] = r.randrange(1, 5)  # the callee must see its DEFAULT in {k} when the caller omits it
                if r.random() < 0.6:
                    params.append(["j", None])  # a second defaulted parameter: callers override one and omit the other
                    defaults["j"] = r.randrange(1, 5)
        fns[f"F{i}"] = {"style": style, "tc": r.choice(("tg", "tg", "bt", "min")), "kind": kind, "params": params, "defaults": defaults,
                        "ret": r.choice(arrs) if (kind not in ("dc", "gen", "coro") and not unannotated and r.random() < 0.6) else None}
    ctr = [0]
    prog = _block(r, g, arrs, fns, _pref(r), 0, r.randrange(3, 8), None, ctr)
    # top-level statelessness probes: the same name against two sizes, both must pass
    a1 = g.arr_ann(atype="np", dtype="Float", toks=[{"kind": "named", "name": "a", "b": False, "q": False}])
    prog += [{"op": "arr", "ann": a1, "val": {"t": "np", "s": [3], "d": "float32"}},
             {"op": "arr", "ann": a1, "val": {"t": "np", "s": [4], "d": "float32"}}, {"op": "obs"}]
    faults = []
    fr = rng(seed, "faults")
    if fr.random() < 0.6:
        for _ in range(fr.randrange(1, 3)):
            faults.append({"site": fr.choice(("tc.call", "tc.call", "duck.shape", "duck.dtype", "body")),
                           "k": fr.randrange(1, 25), "exc": fr.choice(seams.EXC_ALL)})
    return {"engine": ENGINE, "property": PID, "seed": seed, "anns": g.anns, "fns": fns,
            "threads": assign_ids([prog]), "faults": faults}


def _args_for(r, g, f, pref, p_bad):
    args = []
    for name, aref in f["params"]:
        if aref is None:
            if name == "k" and "k" in f.get("defaults", {}) and pref.get("_omit_k"):
                args.append({"t": "omit"})
            elif name == "j" and "j" in f.get("defaults", {}):
                args.append({"t": "omit"} if pref.get("_omit_j") else {"t": "int", "v": 9})
            else:
                args.append({"t": "int", "v": pref["k"] if name == "k" else 7})
        else:
            args.append(g.arr_val(aref, pref, p_bad=p_bad))
            if args[-1]["t"] == "str":
                args[-1] = {"t": "np", "s": [1], "d": "float32"}
    return args


def _block(r, g, arrs, fns, pref, depth, n, kparam, ctr):
    ops = []
    pref = dict(pref)
    for _ in range(n):
        x = r.random()
        if x < 0.28:
            a = r.choice(arrs)
            ops.append({"op": "arr", "ann": a, "val": g.arr_val(a, pref, p_bad=0.25)})
            if ops[-1]["val"]["t"] == "str":
                ops.pop()
        elif x < 0.38:
            ops.append({"op": "obs"})
        elif x < 0.46:
            ops.append({"op": "argprobe", "name": "k", "k": kparam if kparam is not None else 2})
        elif x < 0.49 and depth < 3:
            # resource fault: the interpreter's stack runs out while contexts are open (RecursionError unwinds through them)
            ops.append({"op": "exhaust", "kind": r.choice(("ctx", "ctx", "none", "new")), "slack": r.randrange(0, 16)})
        elif x < 0.60 and depth < 4:
            ops.append({"op": "ctx", "body": _block(r, g, arrs, fns, _pref(r), depth + 1, r.randrange(1, 5), None, ctr),
                        "exit": "ret" if r.random() < 0.7 else ["raise", r.choice(EXITS)]})
            if r.random() < 0.3:  # a kept context-manager object, entered again later or re-entrantly by a nested block
                ops[-1]["obj"] = r.choice(("o1", "o1", "o2"))
        elif depth < 4:
            fid = r.choice(sorted(fns))
            f = fns[fid]
            np_ = dict(_pref(r), k=r.randrange(1, 5))
            has_k = any(p[0] == "k" for p in f["params"])
            if "k" in f.get("defaults", {}) and r.random() < 0.6:
                np_["_omit_k"] = True
                np_["k"] = f["defaults"]["k"]
            np_["_omit_j"] = r.random() < 0.5
            if f["kind"] in ("gen", "coro"):
                ctr[0] += 1
                var = f"g{ctr[0]}"
                body = []
                for _ in range(r.randrange(1, 4)):
                    body.append({"op": "obs"})
                    if r.random() < 0.6 and f["kind"] == "gen":
                        body.append({"op": "yield"})
                ops.append({"op": "call", "fn": fid, "args": _args_for(r, g, f, np_, 0.1), "kw": r.choice((0, 1, 2)),
                            "body": body, "ret": None, "exit": "ret" if r.random() < 0.8 else ["raise", r.choice(EXITS)],
                            "store": var})
                nxt = [{"op": "next", "var": var} for _ in range(r.randrange(1, 4))]
                if r.random() < 0.4:
                    nxt.append({"op": "close", "var": var})
                if r.random() < 0.5 and depth < 4:
                    ops.append({"op": "ctx", "body": [{"op": "arr", "ann": r.choice(arrs), "val": {"t": "np", "s": [2], "d": "float32"}}] + nxt,
                                "exit": "ret"})
                else:
                    ops.extend(nxt)
                continue
            ret = None
            if f.get("ret"):
                ret = g.arr_val(f["ret"], np_, p_bad=0.15)
                if ret["t"] == "str":
                    ret = {"t": "np", "s": [1], "d": "float32"}
            op = {"op": "call", "fn": fid, "args": _args_for(r, g, f, np_, 0.1), "kw": r.choice((0, 0, 1, 2)),
                  "body": _block(r, g, arrs, fns, np_, depth + 1, r.randrange(0, 4), np_["k"] if has_k else None, ctr),
                  "ret": ret, "exit": "ret" if r.random() < 0.65 else ["raise", r.choice(EXITS)]}
            if r.random() < 0.06:
                op["extra_kw"] = ["zz_not_a_parameter"]
            ops.append(op)
        else:
            ops.append({"op": "obs"})
    return ops


# ------------------------------------------------------------------------------------------
def _parse_bindings(text):
    out = {}
    for ln in text.splitlines():
        if "=" in ln and not ln.startswith("The current"):
            k, v = ln.split("=", 1)
            out[k] = v
    return out


class Observer:
    def __init__(self, scn, stats):
        self.scn = scn
        self.stats = stats
        self.viol = []
        self.stack = []
        self.next_text = []
        self.top_fired = 0
        self.feats = set()

    def _v(self, oracle, detail, **sig):
        if len(self.viol) < 5:
            self.viol.append(violation(PID, oracle, detail, sig=dict(oracle=oracle, **sig)))

    def _fired(self):
        return len(seams.state().fired)

    # -- hooks
    def pre(self, interp, run, op, path):
        k = op["op"]
        if k in ("ctx", "call", "exhaust"):
            with seams.quiet():
                self.stack.append({"path": path, "snap": ctxsim.snapshot(), "text": ctxsim.bindings_text(),
                                   "fired": self._fired(), "entered": False, "exit_env": None})
        elif k == "next":
            self.next_text.append(ctxsim.bindings_text())
        elif k == "arr" and not run.frames:
            self.top_fired = self._fired()

    def entered(self, interp, run, op, path):
        ent = self.stack[-1]
        ent["entered"] = True
        with seams.quiet():
            snap = ctxsim.snapshot()
            text = ctxsim.bindings_text()
        flavour = self._flavour(op)
        if snap.get("wb") and ent["snap"].get("wb"):
            if snap["depth"] != ent["snap"]["depth"] + 1:
                self._v("entry", {"path": path, "what": "stack depth at entry", "before": ent["snap"]["depth"],
                                  "at_entry": snap["depth"], "flavour": flavour}, what="depth")
                return
        exp_axes, exp_args = self._expected_entry(op)
        if snap.get("wb") and snap["top"] is not None:
            if exp_args is not None and snap["top"]["args"] != exp_args:
                self._v("entry", {"path": path, "what": "argument memo at entry", "expected": exp_args,
                                  "got": snap["top"]["args"], "flavour": flavour}, what="args")
            if exp_axes is not None and (snap["top"]["single"] != exp_axes or snap["top"]["variadic"] or snap["top"]["pytree"]):
                self._v("entry", {"path": path, "what": "bindings at entry are not those of the block's own arguments",
                                  "expected": exp_axes, "got": snap["top"], "flavour": flavour}, what="bindings")
        if exp_axes is not None:
            got = _parse_bindings(text)
            if got != {k: str(v) for k, v in exp_axes.items()}:
                self._v("entry", {"path": path, "what": "print_bindings at entry", "expected": exp_axes, "got": text,
                                  "flavour": flavour}, what="text")

    def leaving(self, interp, run, op, path):
        with seams.quiet():
            self.stack[-1]["exit_env"] = ctxsim.snapshot()

    def post(self, interp, run, op, path, out):
        k = op["op"]
        if k == "exhaust":
            ent = self.stack.pop()
            with seams.quiet():
                snap = ctxsim.snapshot()
                text = ctxsim.bindings_text()
            self.stats.inc(f"cell:exhaust:{op['kind']}|{out if isinstance(out, str) else 'exc'}")
            self.feats.add(f"exhaust:{op['kind']}|{out if isinstance(out, str) else out.get('exc')}|s{op['slack']}")
            if snap != ent["snap"] or text != ent["text"]:
                self._v("before=after", {"path": path, "flavour": "stack-exhaustion:" + op["kind"], "exit": "RecursionError", "slack": op["slack"],
                                         "before": ent["snap"], "after": snap, "outcome": out}, what="snapshot")
            return
        if k in ("ctx", "call"):
            ent = self.stack.pop()
            with seams.quiet():
                snap = ctxsim.snapshot()
                text = ctxsim.bindings_text()
            flavour = self._flavour(op)
            exitk = self._exit_kind(op, out, ent)
            depth = len(run.frames)
            self.stats.inc(f"cell:{flavour}|{exitk}|d{min(depth, 4)}")
            self.feats.add(f"{flavour}|{exitk}|d{min(depth, 4)}")
            if snap != ent["snap"]:
                self._v("before=after", {"path": path, "flavour": flavour, "exit": exitk, "before": ent["snap"],
                                         "after": snap, "outcome": out}, what="snapshot")
            elif text != ent["text"]:
                self._v("before=after", {"path": path, "flavour": flavour, "exit": exitk, "before": ent["text"],
                                         "after": text}, what="text")
            if k == "call" and self._fired() == ent["fired"]:
                self._check_verdict(op, path, out, ent, flavour)
        elif k == "next":
            self.next_text.pop()
        elif k == "obs":
            fr = run.frames[-1] if run.frames else None
            if fr is not None and fr["kind"] == "gen" and self.next_text:
                if isinstance(out, str) and out != self.next_text[-1]:
                    self._v("generator", {"path": path, "what": "generator body does not observe the resuming block's bindings",
                                          "resumer_sees": self.next_text[-1], "generator_sees": out})
            if fr is None and out != "\n":
                self._v("top-level", {"path": path, "what": "print_bindings at top level printed something", "got": out},
                        what="text")
        elif k == "arr" and not run.frames:
            spec = self.scn["anns"][op["ann"]]
            outs, _ = model.match_array(spec, op["val"], model.Ctx())
            got = "accept" if out is True else "reject" if out is False else out.get("exc")
            if got not in outs and self._fired() == self.top_fired:
                self._v("top-level", {"path": path, "what": "check outside every context is not stateless",
                                      "expected": sorted(outs), "got": out}, what="verdict")
        elif k == "argprobe":
            exp = self._expected_probe(run, op)
            if exp is not None and out != exp:
                self._v("entry", {"path": path, "what": "{k} probe", "expected": exp, "got": out}, what="argprobe")

    # -- helpers
    def _flavour(self, op):
        if op["op"] == "ctx":
            return "ctx"
        f = self.scn["fns"][op["fn"]]
        return f"{f['style']}:{f['tc'] if f['style'] in ('new', 'old') else '-'}:{f['kind']}"

    def _exit_kind(self, op, out, ent):
        if isinstance(out, dict) and "exc" in out:
            if self._fired() != ent["fired"]:
                return "fault:" + out["exc"]
            return "exc:" + out["exc"]
        if op["op"] == "call" and self.scn["fns"][op["fn"]]["kind"] in ("gen", "coro"):
            return "generator" if self.scn["fns"][op["fn"]]["kind"] == "gen" else "coroutine"
        return "return"

    def _param_model(self, op):
        """Conjunction of the call's own (array) parameter annotations over a FRESH context."""
        f = self.scn["fns"][op["fn"]]
        ctx = model.Ctx()
        for (name, aref), val in zip(f["params"], op["args"]):
            if aref is None:
                continue
            outs, post = model.match_array(self.scn["anns"][aref], val, ctx)
            if post is None:
                return None
            ctx = post
        return ctx

    def _expected_entry(self, op):
        if op["op"] == "ctx":
            return {}, []
        f = self.scn["fns"][op["fn"]]
        names = [p[0] for p in f["params"]]
        first = {"method": ["self"], "cm_outer": ["cls"], "cm_inner": ["cls"], "dc": ["self"]}.get(f["kind"], [])
        args = sorted(first + names)
        if f["kind"] in ("gen", "coro"):
            return None, None  # body runs later, in the resuming block's context
        if f["style"] == "none":
            return {}, args
        ctx = self._param_model(op)
        if ctx is None:
            return None, args  # should not have been entered: reported by the verdict oracle
        return dict(ctx.axes), args

    def _expected_probe(self, run, op):
        fr = None
        for f in reversed(run.frames):
            if f["kind"] in ("call", "ctx"):
                fr = f
                break
        if fr is None or fr["kind"] == "ctx" or "k" not in fr["args"]:
            return [{"exc": "AnnotationError"}, {"exc": "AnnotationError"}]
        if fr["args"]["k"] != op["k"]:
            return None
        return [True, False]

    def _check_verdict(self, op, path, out, ent, flavour):
        f = self.scn["fns"][op["fn"]]
        got_exc = out.get("exc") if isinstance(out, dict) else None
        if op.get("extra_kw"):
            if got_exc != "TypeError" or out.get("body_runs"):
                self._v("verdict", {"path": path, "flavour": flavour, "what": "non-binding call must raise the ordinary TypeError and not run the body",
                                    "got": out}, what="nonbinding")
            return
        checked = f["style"] in ("new", "old")
        ctx = self._param_model(op) if checked else model.Ctx()
        if ctx is None:
            if got_exc not in REJECT_NAMES or out.get("body_runs"):
                self._v("verdict", {"path": path, "flavour": flavour, "what": "call with mutually inconsistent arguments was not rejected",
                                    "got": out}, what="accepts-inconsistent")
            elif f["style"] == "new" and got_exc != "TypeCheckError":
                self._v("verdict", {"path": path, "flavour": flavour, "what": "new-style rejection is not a TypeCheckError", "got": out},
                        what="error-class")
            return
        # own arguments are consistent: must get into the body whatever the caller has bound
        if f["kind"] in ("gen", "coro"):
            if got_exc is not None:
                self._v("verdict", {"path": path, "flavour": flavour, "what": "generator-producing call with consistent arguments failed",
                                    "got": out}, what="rejects-consistent")
            return
        if not ent["entered"]:
            self._v("verdict", {"path": path, "flavour": flavour,
                                "what": "call whose own arguments are consistent was rejected (caller's bindings visible in the callee?)",
                                "got": out, "caller_bindings": ent["text"]}, what="rejects-consistent")
            return
        ex = op.get("exit", "ret")
        if ex != "ret":
            if got_exc != ex[1]:
                self._v("verdict", {"path": path, "flavour": flavour, "what": "exception raised by the body did not come back", "expected": ex[1],
                                    "got": out}, what="exception-identity")
            return
        if f.get("ret") and checked and op.get("ret") is not None and not (ent["exit_env"] or {}).get("wb"):
            # the return check depends on what the body bound; without the white-box memo (internal layout changed) the
            # expectation cannot be computed: the call's return verdict is not judged
            self.stats.inc("return_verdict_unjudged_no_white_box")
        elif f.get("ret") and checked and op.get("ret") is not None and ent["exit_env"] is not None and ent["exit_env"].get("wb"):
            c2 = model.Ctx.from_snapshot(ent["exit_env"])
            outs, _ = model.match_array(self.scn["anns"][f["ret"]], op["ret"], c2)
            if "accept" in outs and got_exc is not None:
                self._v("verdict", {"path": path, "flavour": flavour, "what": "consistent return value rejected", "got": out},
                        what="ret-rejected")
            if outs == {"reject"} and got_exc not in REJECT_NAMES:
                self._v("verdict", {"path": path, "flavour": flavour, "what": "inconsistent return value accepted", "got": out},
                        what="ret-accepted")
        elif got_exc is not None:
            self._v("verdict", {"path": path, "flavour": flavour, "what": "well-typed call raised", "got": out}, what="raised")


def execute(scn):
    stats = Stats()
    obs = Observer(scn, stats)
    plan = {(f["site"], f["k"]): f["exc"] for f in scn.get("faults", [])}
    interp, runs, sc, states = ctxsim.run_threads(scn, scn["threads"], {"kind": "solo"}, rng(scn["seed"], "s"),
                                                  observer=obs, plans=[plan], yield_on_seams=False)
    stats.inc("runs")
    stats.inc("evaluations", sum(1 for t in runs[0].transcript if t[1] in ("ctx", "call")))
    st = states[0]
    for site, n, exc in st.fired:
        stats.inc(f"fault_fired:{site}:{exc}")
    stats.inc("faults_planned", len(plan))
    stats.inc("faults_fired", len(st.fired))
    viols = list(obs.viol)
    f = runs[0].final
    if f.get("wb") and (f["depth"] != 0 or f["treepath"] is not None or f["treeflatten"]):
        viols.append(violation(PID, "top-level", {"what": "program ended with a non-empty context stack / flags", "final": f},
                               sig={"oracle": "top-level", "what": "final"}))
    return {"violations": viols, "stats": stats.c, "features": sorted(obs.feats),
            "digest": digest([r.transcript for r in runs]),
            "sample": {"blocks": stats.get("evaluations"), "faults": scn.get("faults"), "program_head": scn["threads"][0][:2]}}
