"""C06 -- threads never see each other's bindings or transient check state.

Oracle (differential, model-free): each thread's transcript under the sampled schedule equals its
transcript when the same programs run solo (no hand-overs), computed in the same process just
before.  A mismatch is attributed by re-running solo once more: if solo differs from solo the run was
nondeterministic and is a harness error, not a violation."""

from .. import ctxsim, sched
from ..core import HarnessError, Stats, canon, digest, rng, violation
from ..gen import Gen, assign_ids

PID = "C06"
LEVEL = "exploration"
ENGINE = "ctxsim"
RULE = (
    "2-3 baton-scheduled real threads run seeded programs (decorated calls new/old/None-style with "
    "typeguard/beartype/minimal checker, context blocks, array checks, PyTree checks with '?' axes, "
    "structure names and registered nodes, failing checks that roll back, print_bindings) over "
    "colliding axis names with different per-thread sizes; pre-emption at every traced line of "
    "jaxtyping/ (+ every opcode of _storage.py in the thorough tier) under random(p)/PCT/window "
    "strategies.  Oracle: per-thread transcript == solo transcript.  distinct_nontrivial = number of "
    "distinct hand-over sequences (digest of (from,to,file:line) lists) with at least one hand-over."
)
REACH = ['handover_in_window:flatten', 'handover_in_window:leaf', 'handover_in_window:snapshot', 'handover_in_window:pushed', 'strategy:random', 'strategy:pct', 'strategy:rendezvous', 'strategy:window:flatten', 'rendezvous_on_shared_state_line', 'threads:3']  # counters (prefixes) that a healthy batch makes non-zero; gaps are reported in the evidence
CHUNK = 1  # every scenario in its own forked child: with opcode-level tracing a scenario's yield sequence was seen to depend on
# what ran before it in the same process (weak-reference caches inside the traced vendored typeguard); one scenario = one process state
BUDGET = {"quick": 40, "thorough": 600}


# ------------------------------------------------------------------------------------------
def gen(seed, tier="quick"):
    r = rng(seed, "program")
    nthreads = 2 if r.random() < 0.6 else 3
    g = Gen(r, names=("a", "b"), sizes=(1, 2, 3, 4), var_names=("v",), allow_sym=True, max_tokens=3,
            sym_args=("k",))
    # shared pool of annotations (threads collide on the same annotation objects and names)
    arr = [g.arr_ann(atype=r.choice(("np", "np", "duck", "any"))) for _ in range(r.randrange(3, 7))]
    if r.random() < 0.7:
        # symbolic axes are evaluated with eval() over a namespace built from the bindings: make sure most runs exercise it
        arr.append(g.arr_ann(atype="np", dtype="Shaped", toks=[{"kind": "named", "name": r.choice(("a", "b")), "b": False, "q": False},
                                                                 {"kind": "sym", "expr": r.choice(("a+1", "2*a", "a+b")), "b": False}]))
    qarr = []
    gq = Gen(r, names=("a", "n"), sizes=(1, 2, 3), var_names=("v",), allow_sym=False, allow_q=True, max_tokens=2)
    gq.anns, gq._ann_index = g.anns, g._ann_index
    for _ in range(r.randrange(1, 3)):
        qarr.append(gq.arr_ann(atype="np", q_ok=True, min_tokens=1, dtype="Float"))
    trees = []
    for _ in range(r.randrange(2, 5)):
        leaf = r.choice(arr + qarr + ["int"])
        struct = r.choice(("T", "T", "S", None)) if leaf not in qarr else r.choice(("T", "S"))
        trees.append(g.add_ann({"k": "tree", "leaf": leaf, "struct": struct}))
    fns = {}
    for i in range(r.randrange(2, 5)):
        np_ = r.randrange(1, 4)
        params = []
        for j in range(np_):
            params.append([f"x{j}", r.choice(arr + trees if r.random() < 0.8 else arr)])
        if r.random() < 0.4:
            params.append(["k", None])
        style = r.choice(("new", "new", "old", "none"))
        fns[f"F{i}"] = {
            "style": style,
            "tc": r.choice(("tg", "tg", "bt", "min")),
            "kind": r.choice(("fn", "fn", "fn", "method", "dc")) if style == "new" else "fn",
            "params": params,
            "ret": r.choice(arr + [None]) if True else None,
        }
        if fns[f"F{i}"]["kind"] == "dc":
            fns[f"F{i}"]["ret"] = None
    threads = []
    for t in range(nthreads):
        pref = {"a": 1 + (t + r.randrange(2)) % 4, "b": 2 + t, "n": 1 + t, "*v": tuple(r.choice((1, 2, 3)) for _ in range(r.randrange(0, 3))),
                "{k}": 1 + t}
        threads.append(_ops(r, g, arr, qarr, trees, fns, pref, depth=3, n=r.randrange(3, 9)))
    scn = {
        "engine": ENGINE,
        "property": PID,
        "seed": seed,
        "anns": g.anns,
        "fns": fns,
        "threads": assign_ids(threads),
        "sched": sched.draw_policy_spec(rng(seed, "swarm")),
        # a third of the runs start their threads in a copy of the starter's contextvars context (asyncio.to_thread style)
        "inherit_context": rng(seed, "swarm4").random() < 0.33,
        "opcode_storage": tier == "thorough" and rng(seed, "swarm2").random() < 0.5,
        # pre-emption between ANY two bytecodes of jaxtyping/ (a race wholly inside one source line): ~5x slower,
        # a quarter of the thorough runs and 3% of the quick ones
        "opcode_all": rng(seed, "swarm3").random() < (0.25 if tier == "thorough" else 0.03),
    }
    return scn


def _tree_val(r, g, aid, pref):
    spec = g.anns[aid]
    leaf = spec["leaf"]
    skel = g.tree_shape(r.randrange(0, 3), 5)
    if leaf == "int":
        return g.fill_tree(skel, lambda i: {"t": "int", "v": i} if r.random() < 0.93 else {"t": "str", "v": "s"})
    return g.fill_tree(skel, lambda i: g.arr_val(leaf, dict(pref, n=pref.get("n", 1) + (i % 2)), p_bad=0.08))


def _ops(r, g, arr, qarr, trees, fns, pref, depth, n):
    ops = []
    for _ in range(n):
        x = r.random()
        if x < 0.30:
            a = r.choice(arr)
            ops.append({"op": "arr", "ann": a, "val": g.arr_val(a, pref)})
        elif x < 0.50:
            a = r.choice(trees)
            ops.append({"op": "tree", "ann": a, "val": _tree_val(r, g, a, pref)})
        elif x < 0.62:
            ops.append({"op": "obs"})
        elif x < 0.78 and depth > 0:
            ops.append({"op": "ctx", "body": _ops(r, g, arr, qarr, trees, fns, pref, depth - 1, r.randrange(1, 5)),
                        "exit": "ret" if r.random() < 0.8 else ["raise", r.choice(("ValueError", "KeyboardInterrupt"))]})
            if r.random() < 0.3:  # one module-level `ctx = jaxtyped("context")` object used by all threads
                ops[-1]["obj"] = "shared1"
        elif depth > 0 and fns:
            fid = r.choice(sorted(fns))
            f = fns[fid]
            args = []
            for name, aref in f["params"]:
                if aref is None:
                    args.append({"t": "int", "v": pref["{k}"]})
                elif g.anns[aref]["k"] == "tree":
                    args.append(_tree_val(r, g, aref, pref))
                else:
                    args.append(g.arr_val(aref, pref, p_bad=0.1))
            ret = None
            if f.get("ret"):
                ret = g.arr_val(f["ret"], pref, p_bad=0.15)
            ops.append({
                "op": "call", "fn": fid, "args": args, "kw": r.choice((0, 0, 1, 2)),
                "body": _ops(r, g, arr, qarr, trees, fns, pref, depth - 1, r.randrange(0, 4)),
                "ret": ret,
                "exit": "ret" if r.random() < 0.85 else ["raise", r.choice(("ValueError", "Abort"))],
            })
        else:
            ops.append({"op": "obs"})
    return ops


# ------------------------------------------------------------------------------------------
_SRC = {}


def _sources():
    import glob
    import os

    from ..core import JT_DIR

    if not _SRC:
        for f in glob.glob(os.path.join(JT_DIR, "*.py")) + glob.glob(os.path.join(JT_DIR, "_typeguard", "*.py")):
            try:
                _SRC[os.path.basename(f)] = open(f).read().splitlines()
            except OSError:
                pass
    return _SRC


def _fp(v):
    try:
        if isinstance(v, dict):
            return ("dict", len(v), tuple(repr(k)[:30] for k in list(v)[:6]))
        if isinstance(v, (list, set, frozenset, tuple)):
            return (type(v).__name__, len(v))
        return ("obj", id(v))
    except Exception:
        return ("?",)


def _shared_state_fingerprint(interp):
    """Names of process-wide mutable state (module-level containers and objects of the library, attributes of the annotation
    classes this run uses and of the library's own classes) with a cheap fingerprint of their value."""
    import sys
    import threading
    import types

    out = {}
    for mname, mod in list(sys.modules.items()):
        if not (mname == "jaxtyping" or mname.startswith("jaxtyping.")) or mod is None:
            continue
        for name, v in list(vars(mod).items()):
            if name.startswith("__") or isinstance(v, (types.ModuleType, types.FunctionType, types.BuiltinFunctionType, threading.local)):
                continue
            if isinstance(v, (dict, list, set)):
                out[("g", name)] = _fp(v)
            elif isinstance(v, type):
                if (getattr(v, "__module__", "") or "").startswith("jaxtyping"):
                    for an, av in list(vars(v).items()):
                        if not an.startswith("__") and not callable(av):
                            out[("c", an)] = _fp(av)
            elif (getattr(type(v), "__module__", "") or "").startswith("jaxtyping") and hasattr(v, "__dict__"):
                for an, av in list(vars(v).items()):
                    out[("o", an)] = _fp(av)
    for aid, ann in interp.world.anns.items():
        if isinstance(ann, type):
            for an, av in list(vars(ann).items()):
                if not an.startswith("__") and not callable(av):
                    out[("a", aid, an)] = _fp(av)
    return out


def _diff_names(a, b):
    names = set()
    for k in set(a) | set(b):
        if a.get(k) != b.get(k):
            names.add(k[-1] if k[0] == "a" else k[1])
    return names


def _lines_mentioning(names):
    import re

    out = set()
    if not names:
        return out
    pat = re.compile(r"\b(" + "|".join(re.escape(n) for n in sorted(names)) + r")\b")
    for fn, lines in _sources().items():
        for i, ln in enumerate(lines, 1):
            if pat.search(ln):
                out.add((fn, i))
                out.add((fn, i + 1))
    return out


def _transcripts(runs):
    return [canon(r.transcript) for r in runs]


def execute(scn):
    stats = Stats()
    progs = scn["threads"]
    n = len(progs)
    seed = scn["seed"]
    # solo baseline (also the warm-up of every code path this scenario uses)
    interp0 = ctxsim.Interp(scn)
    ctxsim.seams.install(ctxsim.seams.SeamState()).enabled = False
    interp0.world.build()
    ctxsim.seams.uninstall()
    shared0 = _shared_state_fingerprint(interp0)
    interp, runs0, sc0, _ = ctxsim.run_threads(scn, progs, {"kind": "solo"}, rng(seed, "schedule0"), interp=interp0)
    mutated = _diff_names(shared0, _shared_state_fingerprint(interp0))
    for key in _lines_mentioning(mutated):
        if key in sc0.lines_seen:
            sc0.global_lines.add(key)
    if mutated:
        stats.inc("runs_with_mutated_shared_state_detected")
    solo = _transcripts(runs0)
    scn2 = dict(scn, _expected_yields=max(50, sc0.total_yields))
    if scn["sched"]["kind"] == "rendezvous" and scn["sched"].get("line") is None:
        rr = rng(seed, "rendezvous")
        lines = sorted(sc0.lines_seen)
        hot = sorted(sc0.global_lines)
        # half of the rendezvous runs target a line that touches module-level mutable state (or the line after it: the
        # window is between the write and the next use), the other half any executed line
        if hot and rr.random() < 0.5:
            f_, l_ = hot[rr.randrange(len(hot))]
            cand = [x for x in lines if x[0] == f_ and l_ <= x[1] <= l_ + 2]
            pick = cand[rr.randrange(len(cand))]
            stats.inc("rendezvous_on_shared_state_line")
        else:
            pick = lines[rr.randrange(len(lines))] if lines else ("", 0)
        scn2["sched"] = dict(scn["sched"], line=list(pick))
    ctxsim.clear_caches()
    interp1, runs1, sc1, _ = ctxsim.run_threads(
        scn2, progs, scn2["sched"], rng(seed, "schedule"), opcode_storage=scn.get("opcode_storage", False),
        opcode_all=scn.get("opcode_all", False))
    conc = _transcripts(runs1)
    stats.inc("runs")
    stats.inc("yield_points", sc1.total_yields)
    stats.inc("handovers", len([h for h in sc1.handovers if h[1] != "fin"]))
    stats.inc("strategy:" + scn["sched"]["kind"] + (":" + scn["sched"]["w"] if scn["sched"]["kind"] == "window" else ""))
    stats.mx("distinct_lines_in_a_run", len(sc0.lines_seen))
    stats.mx("lines_touching_module_level_mutable_state", len(sc0.global_lines))
    stats.inc(f"threads:{n}")
    if scn.get("opcode_storage"):
        stats.inc("opcode_level_runs_storage")
    if scn.get("opcode_all"):
        stats.inc("opcode_level_runs_all_files")
    for w, c in sc1.in_window_handover.items():
        stats.inc("handover_in_window:" + w, c)
    nontrivial = [h for h in sc1.handovers if h[1] != "fin"]
    feat = digest([[h[0], h[2], h[3]] for h in sc1.handovers]) if nontrivial else None
    viols = []
    for t in range(n):
        if solo[t] != conc[t]:
            # attribution: is solo reproducible?
            ctxsim.clear_caches()
            _, runs2, _, _ = ctxsim.run_threads(scn, progs, {"kind": "solo"}, rng(seed, "schedule0"))
            if _transcripts(runs2)[t] != solo[t]:
                raise HarnessError(f"C06: solo transcript of thread {t} is not reproducible (seed {seed})")
            d = _first_diff(runs0[t].transcript, runs1[t].transcript)
            viols.append(violation(PID, "solo-vs-concurrent", f"thread {t}: {d}",
                                   sig={"oracle": "solo-vs-concurrent", "kind": d.get("kind")}))
            break
    for t in range(n):
        f = runs1[t].final
        if f.get("wb") and (f["depth"] != 0 or f["treepath"] is not None or f["treeflatten"]):
            viols.append(violation(PID, "thread-final-state", f"thread {t} ended with {f}",
                                   sig={"oracle": "thread-final-state"}))
            break
    return {
        "violations": viols,
        "stats": stats.c,
        "features": [feat] if feat else [],
        "digest": digest([solo, conc, sc1.explicit_schedule()]),
        "schedule": sc1.explicit_schedule(),
        "first": sc1.handovers[0][0] if sc1.handovers else 0,
        "sample": {"threads": n, "ops": [len(p) for p in progs], "strategy": scn["sched"],
                   "yield_points": sc1.total_yields, "handovers": len(nontrivial)},
    }


def _first_diff(a, b):
    for i, (x, y) in enumerate(zip(a, b)):
        if x != y:
            return {"index": i, "path": x[0], "kind": x[1], "solo": _short(x[2]), "concurrent": _short(y[2])}
    return {"index": min(len(a), len(b)), "kind": "length", "solo": len(a), "concurrent": len(b)}


def _short(o):
    s = repr(o)
    return s if len(s) < 300 else s[:300] + "..."


def concretise(scn, result):
    """Replace the PRNG-driven schedule by the explicit recorded one (so that the minimiser can delete
    operations of one thread without invalidating the hand-overs of another)."""
    s = dict(scn)
    first = scn["sched"].get("first", None)
    s["sched"] = {"kind": "explicit", "schedule": result["schedule"], "first": _first_thread(scn, result)}
    return s


def _first_thread(scn, result):
    return result.get("first_thread", result.get("first", 0))
