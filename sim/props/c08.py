"""C08 -- PyTree[L] accepts exactly the trees all of whose leaves match L.

Histories of PyTree checks interleaved with array checks inside checking contexts, so that leaves are
compared against bindings made earlier and bindings made by the first leaves constrain later ones; trees
over tuple / list / dict / None / namedtuple / registered nodes up to depth 4 with empty containers, None
anywhere, top-level None, leaf-typed tuples that are themselves an L; leaf types int, str, tuple[int,int],
tuple[array,int], exclusive unions, Any, a metaclass leaf, array annotations with named / variadic /
broadcast axes, and PyTree[L] nested in PyTree[...].  Oracle: step-wise refinement against the reference
tree model from the observed pre-state (outcome in set; on accept bindings == model's)."""

from .. import ctxsim, seams
from ..core import Stats, digest, rng
from ..gen import Gen, assign_ids
from .treebase import TreeObserver, leaf_value

PID = "C08"
LEVEL = "exploration"
ENGINE = "ctxsim"
REACH = ['history_shadow_judged', 'tree:accept', 'tree:reject', 'arr:accept', 'fault_fired:node.flatten', 'fault_fired:leaf.instancecheck']  # counters (prefixes) that a healthy batch makes non-zero; gaps are reported in the evidence
BUDGET = {"quick": 35, "thorough": 600}
RULE = (
    "Seeded histories inside jaxtyped('context') blocks: 3-10 operations mixing array checks and PyTree checks "
    "(structure-less mostly, sometimes with a structure name, sometimes PyTree[PyTree[L]], bare PyTree, "
    "top-level None); one bad leaf at a seeded position in ~40% of trees; 0-1 injected TypeError/RuntimeError at "
    "node flatten / leaf __instancecheck__ call-outs in ~15% of runs (operations during which a fault fired are "
    "not judged).  Oracle: outcome in the reference tree model's outcome set, bindings after an accepted check == "
    "model post-state.  distinct_nontrivial = distinct (leaf-type class, tree skeleton class, #leaves, bad-leaf "
    "position, pre-bound?, outcome) tuples."
)
ASSUMPTIONS = ["reference tree model (sim/model.py) trusted; jax.tree_util is real code", "deciding dimension is the history (state)"]
COMPONENTS = {"real": ["jaxtyping PyTree/array checks, vendored typeguard", "jax.tree_util"], "stub": ["Duck arrays, Node, Leaf metaclass"]}


def gen(seed, tier="quick"):
    r = rng(seed, "program")
    g = Gen(r, names=("a", "b"), sizes=(1, 2, 3), var_names=("v",), allow_sym=False, max_tokens=2)
    pref = {"a": r.randrange(1, 4), "b": r.randrange(1, 4), "*v": tuple(r.choice((1, 2)) for _ in range(r.randrange(0, 3))), "n": 2}
    arrs = [g.arr_ann(atype=r.choice(("np", "np", "duck")), dtype=r.choice(("Float", "Shaped")), min_tokens=0) for _ in range(r.randrange(2, 4))]
    leafs = ["int", "str", "any", "leaf"] + arrs
    leafs.append(g.add_ann({"k": "tuple", "items": ["int", "int"]}))
    leafs.append(g.add_ann({"k": "tuple", "items": [arrs[0], "int"]}))
    leafs.append(g.add_ann({"k": "union", "items": ["int", "str"]}))
    leafs.append(g.add_ann({"k": "union", "items": [arrs[0], "str"]}))
    leafs.append(g.add_ann({"k": "union", "items": ["int", "str"], "pep604": True}))
    leafs.append(g.add_ann({"k": "union", "items": [arrs[0], "str"], "pep604": True}))
    # unions whose members OVERLAP (both array annotations accept a 1-d float array, each binding its own axis name): members are
    # tried in order and the first match wins -- the others must not be evaluated for their side effects
    ua = g.add_ann({"k": "arr", "dtype": "Float", "atype": "np", "dims": "a", "toks": [{"kind": "named", "name": "a"}]})
    ub = g.add_ann({"k": "arr", "dtype": "Float", "atype": "np", "dims": "b", "toks": [{"kind": "named", "name": "b"}]})
    leafs.append(g.add_ann({"k": "union", "items": [ua, ub]}))
    # (same member order in both spellings: typing treats Union[A, B] and B | A as EQUAL, and the lru_cache on PyTree.__getitem__
    # then hands out whichever of two equal unions was subscripted first in the process -- with overlapping members the try-order,
    # which typing leaves unspecified, decides which axis gets bound; the model assumes written order)
    leafs.append(g.add_ann({"k": "union", "items": [ua, ub], "pep604": True}))
    # typing.Any nested inside a union / a fixed-length tuple
    leafs.append(g.add_ann({"k": "union", "items": ["int", "any"]}))
    leafs.append(g.add_ann({"k": "tuple", "items": ["any", "int"]}))
    leafs.append(g.add_ann({"k": "listof", "item": "int"}))
    leafs.append(g.add_ann({"k": "dictof", "item": "int"}))
    leafs.append(g.add_ann({"k": "listof", "item": arrs[0]}))
    bare = g.add_ann({"k": "baretree"})

    def tree_op():
        L = r.choice(leafs)
        struct = "T" if r.random() < 0.15 else None
        leaf_for_ann = L
        if r.random() < 0.2:
            leaf_for_ann = g.add_ann({"k": "tree", "leaf": L, "struct": None})
            if r.random() < 0.3:
                leaf_for_ann = g.add_ann({"k": "tree", "leaf": leaf_for_ann, "struct": None})
        ta = g.add_ann({"k": "tree", "leaf": leaf_for_ann, "struct": struct}) if r.random() > 0.05 else bare
        x = r.random()
        if x < 0.05:
            val = {"t": "none"}
        else:
            skel = g.tree_shape(r.randrange(0, 5), 8, node_ok=True)
            bad = r.randrange(0, 8) if r.random() < 0.4 else -1
            val = g.fill_tree(skel, lambda i: leaf_value(g, r, g.anns, L, pref, i != bad, i))
        return {"op": "tree", "ann": ta, "val": val}

    def block(depth):
        ops = []
        for _ in range(r.randrange(3, 11)):
            x = r.random()
            if x < 0.3:
                a = r.choice(arrs)
                vt = "np" if g.anns[a]["atype"] == "np" else "duck"
                ops.append({"op": "arr", "ann": a, "val": g.arr_val(a, pref, p_bad=0.15, vt=vt)})
            elif x < 0.9:
                ops.append(tree_op())
            elif depth < 1:
                ops.append(block(depth + 1))
            else:
                ops.append({"op": "obs"})
        return {"op": "ctx", "body": ops, "exit": "ret"}

    # C08 is stated for checks INSIDE a checking context (outside, every leaf check is stateless by C05): no
    # top-level tree operations are generated
    prog = [block(0)]
    faults = []
    fr = rng(seed, "faults")
    if fr.random() < 0.15:
        faults.append({"site": fr.choice(("node.flatten", "leaf.instancecheck")), "k": fr.randrange(1, 10),
                       "exc": fr.choice(("TypeError", "RuntimeError"))})
    return {"engine": ENGINE, "property": PID, "seed": seed, "anns": g.anns, "fns": {}, "threads": assign_ids([prog]), "faults": faults}


def _feature(obs, op, spec, snap0, got):
    if op["op"] == "arr":
        return f"arr|{got}"
    v = op["val"]

    def cls(x, d=0):
        if x["t"] in ("tuple", "list", "nt", "node"):
            return x["t"][0] + "(" + "".join(cls(c, d + 1) for c in x["c"][:3]) + ")" if d < 2 else x["t"][0]
        if x["t"] == "dict":
            return "d(" + "".join(cls(c, d + 1) for _, c in x["c"][:3]) + ")" if d < 2 else "d"
        return "N" if x["t"] == "none" else "."

    top = snap0.get("top") or {}
    return f"{obs.ann_shape(op['ann'])}|{cls(v)}|{'bound' if top.get('single') or top.get('variadic') else 'fresh'}|{got}"


def execute(scn, pid=PID):
    stats = Stats()
    obs = TreeObserver(pid, scn, stats, _feature)
    plan = {(f["site"], f["k"]): f["exc"] for f in scn.get("faults", [])}
    interp, runs, sc, states = ctxsim.run_threads(scn, scn["threads"], {"kind": "solo"}, rng(scn["seed"], "s"), observer=obs,
                                                  yield_on_seams=False, plans=[plan])
    stats.inc("runs")
    for site, n, exc in states[0].fired:
        stats.inc(f"fault_fired:{site}:{exc}")
    first = [o for o in _flat(scn["threads"][0]) if o["op"] == "tree"][:3]
    return {"violations": obs.viol, "stats": stats.c, "features": sorted(obs.feats), "digest": digest([r_.transcript for r_ in runs]),
            "sample": {"tree_checks": [[obs.describe(o["ann"]), o["val"]] for o in first][:2], "checks": stats.get("evaluations")}}


def _flat(ops):
    for o in ops:
        yield o
        if isinstance(o.get("body"), list):
            yield from _flat(o["body"])
