"""C09 -- PyTree structure names bind, compose, prefix and suffix exactly as documented.

Histories inside checking contexts over the structure bindings: trees t, s and candidates x generated
RELATIVE to each other (x = s with every leaf replaced by t, t with every leaf replaced by s, an
extension of t, a tree whose bottom layer is copies of t, or one of those with one node perturbed: extra
child, renamed dict key, None <-> leaf, list <-> tuple, empty container) checked with the forms 'T',
'S T', 'T S', 'T ...', '... T', '... S T', 'S T ...' while T / S are bound, bound to something else, or
unbound; leaf types int, unions whose first alternative fails after binding, nested PyTree leaf types.
Structure STRINGS are also built at run time (identifiers, '...' at either / both ends / alone, commas,
digit-first, empty, padded) and must build or raise ValueError exactly per the documented grammar.
Oracle: step-wise refinement against the reference structure algebra (sim/model.py)."""

import copy
import json

from .. import ctxsim, seams
from ..core import Stats, digest, rng, violation
from ..gen import Gen, assign_ids
from . import c08
from .treebase import TreeObserver

PID = "C09"
LEVEL = "exploration"
ENGINE = "ctxsim"
REACH = ['history_shadow_judged', 'tree:accept', 'tree:reject', 'tree:AnnotationError', 'build:built', 'build:ValueError']  # counters (prefixes) that a healthy batch makes non-zero; gaps are reported in the evidence
BUDGET = {"quick": 35, "thorough": 600}
RULE = (
    "Seeded histories in jaxtyped('context') blocks: bind T and S (or not, or to other trees), then 3-8 candidate "
    "checks with structure forms T / S T / T S / T ... / ... T / ... S T / S T ... / T T / T T S / S T S / T T ... / ... T T (a name repeated in one composite); candidates derived from t and s "
    "by composition, extension, bottom-layer replication and single-node perturbation (depth <= 4, tuples / lists / "
    "dicts / None / namedtuple / registered node, empty containers); leaf types int, Union[Float['2'],Float['3']], "
    "Union[PyTree[int],str]; plus run-time construction of PyTree[int, <string>] for 20 kinds of structure strings. "
    "Oracle: reference structure algebra (bind-or-compare, compose, prefix, suffix, unbound => AnnotationError, "
    "grammar => ValueError at build).  distinct_nontrivial = distinct (form, relation of candidate to t/s, "
    "perturbation, bound-state, outcome) tuples."
)
ASSUMPTIONS = ["reference structure algebra trusted", "deciding dimension is the history of structure bindings"]
COMPONENTS = {"real": ["jaxtyping PyTree checks", "jax.tree_util"], "stub": ["Node (registered pytree node)"]}

STRINGS = ["T", "S T", "T ...", "... T", "  T  ", "T  S", "foo bar baz", "... S T", "S T ...", "_x y1",
           "...", "... ...", "... T ...", "T ... S", "", "   ", "T,S", "1T", "T S,", "T-S", "... ... T", "T.", "a b ... c"]


def valid_struct_string(s):
    """Per the documented grammar: a whitespace-separated sequence of (>=1) identifiers, optionally preceded OR
    followed by '...' ."""
    if not isinstance(s, str):
        return False
    pieces = s.split()
    dots = [i for i, p in enumerate(pieces) if p == "..."]
    if len(dots) > 1:
        return False
    if dots and dots[0] not in (0, len(pieces) - 1):
        return False
    ids = [p for p in pieces if p != "..."]
    return len(ids) >= 1 and all(p.isidentifier() for p in ids)


def _leaf():
    return {"t": "int", "v": 0}


def _map_leaves(v, fn):
    t = v["t"]
    if t in ("tuple", "list", "nt", "node"):
        return {"t": t, "c": [_map_leaves(c, fn) for c in v["c"]]}
    if t == "dict":
        return {"t": "dict", "c": [[k, _map_leaves(c, fn)] for k, c in v["c"]]}
    if t == "none":
        return {"t": "none"}
    return fn()


def _nodes(v, path=()):
    out = [(path, v)]
    t = v["t"]
    if t in ("tuple", "list", "nt", "node"):
        for i, c in enumerate(v["c"]):
            out += _nodes(c, path + (i,))
    elif t == "dict":
        for i, (k, c) in enumerate(v["c"]):
            out += _nodes(c, path + (i,))
    return out


def _set(v, path, new):
    if not path:
        return new
    v = copy.deepcopy(v)
    cur = v
    for i in path[:-1]:
        cur = cur["c"][i] if cur["t"] != "dict" else cur["c"][i][1]
    if cur["t"] == "dict":
        cur["c"][path[-1]][1] = new
    else:
        cur["c"][path[-1]] = new
    return v


def perturb(r, v):
    nodes = _nodes(v)
    path, node = nodes[r.randrange(len(nodes))]
    t = node["t"]
    x = r.random()
    if t in ("tuple", "list", "node") and x < 0.3:
        new = {"t": t, "c": node["c"] + [_leaf()]}
        kind = "extra-child"
    elif t == "dict" and node["c"] and x < 0.4:
        c = copy.deepcopy(node["c"])
        c[0][0] = c[0][0] + "x"
        new = {"t": "dict", "c": c}
        kind = "dict-key"
    elif t in ("tuple", "list") and x < 0.6:
        new = {"t": "list" if t == "tuple" else "tuple", "c": node["c"]}
        kind = "list<->tuple"
    elif t == "none":
        new = _leaf()
        kind = "none->leaf"
    elif t == "int" and x < 0.5:
        new = {"t": "none"}
        kind = "leaf->none"
    elif t == "int":
        new = {"t": "tuple", "c": []}
        kind = "leaf->empty"
    else:
        new = {"t": "tuple", "c": [node]}
        kind = "wrap"
    return _set(v, path, new), kind


def gen(seed, tier="quick"):
    r = rng(seed, "program")
    g = Gen(r, names=("a",), sizes=(2, 3), allow_sym=False, max_tokens=1)
    A2 = g.add_ann({"k": "arr", "dtype": "Float", "atype": "np", "dims": "2", "toks": [{"kind": "fixed", "size": 2}]})
    A3 = g.add_ann({"k": "arr", "dtype": "Float", "atype": "np", "dims": "3", "toks": [{"kind": "fixed", "size": 3}]})
    U23 = g.add_ann({"k": "union", "items": [A2, A3]})
    PTI = g.add_ann({"k": "tree", "leaf": "int", "struct": None})
    UPS = g.add_ann({"k": "union", "items": [PTI, "str"]})
    leafkind = r.choice(("int", "int", "int", "u23", "ups"))
    L = {"int": "int", "u23": U23, "ups": UPS}[leafkind]

    def leafv():
        if leafkind == "int":
            return {"t": "int", "v": 1}
        if leafkind == "u23":
            return {"t": "np", "s": [r.choice((2, 3, 3))], "d": "float32"}
        return r.choice(({"t": "str", "v": "s"}, {"t": "str", "v": "s"}, {"t": "int", "v": 1}))

    def ann(struct):
        return g.add_ann({"k": "tree", "leaf": L, "struct": struct})

    def small(depth, node_ok=True):
        return g.fill_tree(g.tree_shape(depth, 4, node_ok=node_ok), lambda i: _leaf())

    prev = {}

    def block():
        t = small(r.randrange(0, 3))
        s = small(r.randrange(0, 3))
        if prev and r.random() < 0.4:
            # same shape as the previous block's trees, one node perturbed (dict key renamed, list<->tuple, ...): structures that
            # a coarse cache key (hash, leaf count) cannot tell apart
            t, _ = perturb(r, prev["t"])
            s = copy.deepcopy(prev["s"]) if r.random() < 0.5 else perturb(r, prev["s"])[0]
        prev["t"], prev["s"] = t, s
        ops = []
        bound = r.choice(("both", "both", "both", "T", "none", "other"))
        if bound in ("both", "T", "other"):
            ops.append({"op": "tree", "ann": ann("T"), "val": _map_leaves(t if bound != "other" else small(2), leafv), "_rel": "bind-T"})
        if bound in ("both", "other"):
            ops.append({"op": "tree", "ann": ann("S"), "val": _map_leaves(s if bound != "other" else small(1), leafv), "_rel": "bind-S"})
        for _ in range(r.randrange(3, 9)):
            rel = r.choice(("S.T", "T.S", "ext-T", "bottom-T", "t", "s", "ext-ST", "random", "T.T"))
            if rel == "T.T":  # a name used twice in one composite
                x = _map_leaves(t, lambda: copy.deepcopy(t))
                if r.random() < 0.3:
                    x = _map_leaves(x, lambda: copy.deepcopy(s))
            elif rel == "S.T":
                x = _map_leaves(s, lambda: copy.deepcopy(t))
            elif rel == "T.S":
                x = _map_leaves(t, lambda: copy.deepcopy(s))
            elif rel == "ext-T":
                x = _map_leaves(t, lambda: small(r.randrange(0, 2)) if r.random() < 0.7 else r.choice(({"t": "none"}, {"t": "tuple", "c": []})))
            elif rel == "ext-ST":
                x = _map_leaves(_map_leaves(s, lambda: copy.deepcopy(t)), lambda: small(r.randrange(0, 2)))
            elif rel == "bottom-T":
                u = small(r.randrange(0, 3))
                x = _map_leaves(u, lambda: copy.deepcopy(t))
            elif rel == "t":
                x = copy.deepcopy(t)
            elif rel == "s":
                x = copy.deepcopy(s)
            else:
                x = small(r.randrange(0, 4))
            pk = "none"
            if r.random() < 0.35:
                x, pk = perturb(r, x)
            form = r.choice(("T", "T", "S T", "T S", "T ...", "... T", "... S T", "S T ...", "S"))
            if rel == "T.T" or r.random() < 0.06:
                form = r.choice(("T T", "T T", "T T S", "T T ...", "... T T", "S T S", "T", "T ..."))
            xv = _map_leaves(x, leafv)
            if leafkind == "int" and r.random() < 0.05:
                xv = _map_leaves(x, lambda: {"t": "str", "v": "bad"})
            ops.append({"op": "tree", "ann": ann(form), "val": xv, "_rel": f"{form}|{rel}|{pk}|{bound}"})
            if leafkind == "int" and '"t": "node"' in json.dumps(xv) and r.random() < 0.3:
                # re-entrancy: the registered node's flatten function itself checks a tree against a structure name, in the same
                # thread and context, while the outer check is flattening.  Plain `int` leaves only: with a leaf type that contains
                # PyTree / array annotations the nested check can run inside an is_leaf probe whose failure rolls it back
                ops[-1]["reentry"] = {"site": "node.flatten", "k": 1,
                                      "op": {"op": "tree", "ann": ann(r.choice(("T", "S"))), "val": _map_leaves(small(1, node_ok=False), leafv)}}
            if r.random() < 0.1:
                ops.append({"op": "obs"})
        return {"op": "ctx", "body": ops, "exit": "ret"}

    prog = [block() for _ in range(r.randrange(1, 4))]
    for _ in range(r.randrange(1, 4)):
        s_ = r.choice(STRINGS) if r.random() < 0.93 else r.choice((3, None))
        prog.append({"op": "build", "spec": {"k": "tree", "leaf": "int", "struct": s_}})
    return {"engine": ENGINE, "property": PID, "seed": seed, "anns": g.anns, "fns": {}, "threads": assign_ids([prog])}


class Observer(TreeObserver):
    def post(self, interp, run, op, path, out):
        if op["op"] == "build":
            s = op["spec"]["struct"]
            want = "built" if valid_struct_string(s) else "ValueError"
            got = out if isinstance(out, str) else out.get("exc")
            self.stats.inc("evaluations")
            self.stats.inc("build:" + str(got))
            self.feats.add(f"build|{s!r}|{got}")
            if got != want and len(self.viol) < 3:
                self.viol.append(violation(PID, "structure-string-grammar", {"string": s, "expected": want, "got": out},
                                           sig={"oracle": "structure-string-grammar", "string": s if isinstance(s, str) else repr(s),
                                                "got": str(got)}))
            return
        return TreeObserver.post(self, interp, run, op, path, out)


def _feature(obs, op, spec, snap0, got):
    return f"{op.get('_rel', op['op'])}|{got}"


def execute(scn):
    stats = Stats()
    obs = Observer(PID, scn, stats, _feature)
    interp, runs, sc, states = ctxsim.run_threads(scn, scn["threads"], {"kind": "solo"}, rng(scn["seed"], "s"), observer=obs,
                                                  yield_on_seams=False)
    stats.inc("runs")
    first = [o for o in c08._flat(scn["threads"][0]) if o["op"] == "tree"][:4]
    return {"violations": obs.viol, "stats": stats.c, "features": sorted(obs.feats), "digest": digest([r_.transcript for r_ in runs]),
            "sample": {"checks": [[obs.describe(o["ann"]), o.get("_rel"), o["val"]] for o in first][:3]}}
