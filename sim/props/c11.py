"""C11 -- the import hook instruments exactly the named packages, only while installed.

Single-run histories with bytecode caching OFF (so that a C18 defect can neither mask nor cause a C11
verdict) over a generated package forest with look-alike names (foo, foobar, foo_bar, fo, foo.sub,
foo.sub.leaf, foox.sub, ...) whose modules import each other; operations: install (string or list of
names, every checker incl. None and the old tuple form, via the API, as a with-block, via the
pytest_configure entry point), overlapping hooks, uninstall (also twice), imports before / between /
after, function-level imports, reloads.  Model: a module is instrumented iff at its first import at
least one installed-and-not-yet-removed hook has a name equal to the module's full dotted name or a
dotted prefix of it; its checker is one of the covering hooks'; everything else loads unmodified; after
the last uninstall no finder of the hook remains on sys.meta_path."""

from .. import hooksim
from ..core import H, Stats, digest, rng, violation
from ..hooksim import MODULES
from .c18 import gen_forest, _sig

PID = "C11"
LEVEL = "exploration"
ENGINE = "hooksim"
CHUNK = 32
REACH = ['op:enter_later', 'ipy:instrumented', 'ipy:plain', 'ipy:magic_inside_cell', 'par:runs_with_preemption', 'loaded_instrumented', 'loaded_plain', 'loaded_under_overlapping_hooks', 'op:uninstall', 'op:reload', 'histories_cross_validated_with_real_processes']  # counters (prefixes) that a healthy batch makes non-zero; gaps are reported in the evidence
BUDGET = {"quick": 35, "thorough": 600}
RULE = (
    "Seeded single-process histories (bytecode caching off) of 6-16 operations: install_import_hook with "
    "1-3 names (dotted and undotted, look-alike siblings) x checker a/b/None (string, tuple form, "
    "pytest_configure option), with-block or explicit uninstall (also twice, also of an overlapping twin), "
    "imports of any forest module (parents and nested imports are loaded implicitly), function-level imports, "
    "reloads, 2-3 threads importing concurrently under the baton scheduler.  One history in ten is a NOTEBOOK history instead: cells "
    "of a real IPython shell (%load_ext jaxtyping, %jaxtyping.typechecker a/b as a line or as first line of a defining cell, cells "
    "defining functions and classes, redefinitions, import cells, API hooks in between).  Oracle: reference model of the instrumented "
    "set per load / per notebook definition + finder count on sys.meta_path. "
    "distinct_nontrivial = distinct (sequence of hook name sets / checkers / uninstall positions, import "
    "order) digests."
)
ASSUMPTIONS = ["the IPython magic is driven through a real in-process InteractiveShell (history database off), not through a Jupyter kernel",
               "spy typecheckers record and return the function unchanged"]
COMPONENTS = {"real": ["jaxtyping._import_hook", "jaxtyping._pytest_plugin.pytest_configure", "jaxtyping._ipython_extension",
                       "IPython InteractiveShell (cell execution, AST transformers, magics, extension manager)", "CPython importlib", "file system"],
              "stub": ["pytest config object", "spy typecheckers", "process boundary between histories (soft restart)"]}
NAMES = ["foo", "foo.sub", "foo.sub.leaf", "foo.util", "foobar", "foo_bar", "fo", "bar", "bar.baz", "foox", "foox.sub", "fo.o", "foo.su", "nsp", "nsp.inner"]


def worker_init():
    hooksim.worker_init()
    from .. import ipysim

    try:
        ipysim.shell()  # created once per worker, before chunk children are forked (no threads: history is off)
    except ImportError:  # no IPython in this environment: notebook histories are skipped and counted
        pass


def gen_notebook(seed, r, forest):
    """The IPython entry point: a history of notebook cells (see sim/ipysim.py)."""
    cells = []
    loaded = False
    k = 0
    hid = 0
    active = []
    for _ in range(r.randrange(4, 13)):
        x = r.random()
        if x < 0.15 or (not loaded and x < 0.4):
            cells.append({"op": "load_ext" if not loaded or r.random() < 0.6 else "reload_ext"})
            loaded = True
        elif x < 0.35:
            cells.append({"op": "magic", "checker": r.choice(("a", "b"))})
        elif x < 0.7:
            k += 1
            cells.append({"op": "cell", "k": k, "magic_first": r.choice(("a", "b")) if r.random() < 0.2 else None})
        elif x < 0.76 and k:
            cells.append({"op": "redefine", "k": r.randrange(1, k + 1)})
        elif x < 0.88:
            cells.append({"op": "import", "module": r.choice(MODULES)})
        elif x < 0.94:
            hid += 1
            cells.append({"op": "install", "id": f"h{hid}", "names": sorted(set(r.choice(NAMES) for _ in range(r.randrange(1, 3)))),
                          "checker": r.choice(("a", "b"))})
            active.append(f"h{hid}")
        elif active:
            cells.append({"op": "uninstall", "id": active.pop(r.randrange(len(active)))})
    cells.append({"op": "recheck"})
    return {"engine": ENGINE, "property": PID, "seed": seed, "kind": "ipython", "forest": forest, "cells": cells}


def gen(seed, tier="quick"):
    r = rng(seed, "program")
    forest = gen_forest(r)
    if rng(seed, "entry").random() < 0.1:
        return gen_notebook(seed, r, forest)
    ops = []
    active = []
    hid = 0
    imported_any = False
    pending_enter = []
    for _ in range(r.randrange(6, 17)):
        x = r.random()
        if x < 0.28:
            hid += 1
            names = sorted(set(r.choice(NAMES) for _ in range(r.randrange(1, 4))))
            if active and r.random() < 0.2:
                names = list(r.choice(active)[1])  # an identical twin of an active hook
            op = {"op": "install", "id": f"h{hid}", "names": names, "checker": r.choice(("a", "a", "b", "none")),
                  "as_str": r.random() < 0.4, "tuple_form": r.random() < 0.15, "with": r.random() < 0.4}
            if r.random() < 0.12 and not imported_any:
                op["api"] = "pytest"
                op["checker"] = r.choice(("a", "b"))
            ops.append(op)
            if op.get("api") != "pytest" and op["with"] and r.random() < 0.35:
                op["enter_later"] = True  # `with hook:` is entered a few operations after the install call
                pending_enter.append(op["id"])
            if op.get("api") != "pytest":
                active.append((op["id"], names, op["with"]))
        elif x < 0.34 and pending_enter:
            ops.append({"op": "enter", "id": pending_enter.pop(r.randrange(len(pending_enter)))})
        elif x < 0.42 and active:
            i = r.randrange(len(active))
            hid_, _, w = active[i]
            if hid_ in pending_enter:  # never entered: leave it by the explicit call
                pending_enter.remove(hid_)
                w = False
            ops.append({"op": "uninstall", "id": hid_, "with": w})
            if r.random() < 0.7:
                active.pop(i)  # else: may be uninstalled a second time later
        elif x < 0.88:
            ops.append({"op": "import", "module": r.choice(MODULES)})
            imported_any = True
            if r.random() < 0.1:
                # the same, from 2-3 threads at once (hooks do not change meanwhile, so the expected set is schedule-independent)
                from .c18 import gen_par

                par = gen_par(r, forest, seed, len(ops))
                if par is not None:
                    ops[-1] = par
        elif x < 0.95:
            ops.append({"op": "call_lazy", "module": r.choice(MODULES)})
        else:
            ops.append({"op": "reload", "module": r.choice(MODULES)})
    if r.random() < 0.5:
        for hid_, _, w in active:
            ops.append({"op": "uninstall", "id": hid_, "with": w and hid_ not in pending_enter})
        ops.append({"op": "import", "module": r.choice(MODULES)})
    return {"engine": ENGINE, "property": PID, "seed": seed, "forest": forest,
            "runs": [{"ops": ops, "check_finders": True}], "bytecode": False,
            "real_process": H(seed, "real") % (60 if tier == "thorough" else 600) == 0}


def execute_notebook(scn):
    from .. import ipysim

    stats = Stats()
    try:
        import IPython  # noqa: F401
    except ImportError:
        stats.inc("runs")
        stats.inc("notebook_histories_skipped_no_ipython")
        return {"violations": [], "stats": stats.c, "features": [], "digest": digest(["skipped"]), "sample": {}}
    probs, obs = ipysim.run_notebook(scn, stats)
    stats.inc("runs")
    stats.inc("notebook_histories")
    stats.inc("evaluations", stats.get("ipy:definitions") + stats.get("modules_loaded"))
    viols, seen = [], set()
    for p in probs:
        s = dict(_sig(p), entry="ipython")
        key = repr(sorted(s.items()))
        if key not in seen:
            seen.add(key)
            viols.append(violation(PID, "notebook-observation", p, sig=s))
    feat = digest([[(o["op"], o.get("checker"), o.get("magic_first"), o.get("module")) for o in scn["cells"]]])
    return {"violations": viols, "stats": stats.c, "features": [feat], "digest": digest([probs, obs]),
            "sample": {"cells": scn["cells"][:10]}}


def execute(scn):
    if scn.get("kind") == "ipython":
        return execute_notebook(scn)
    stats = Stats()
    probs, obs_soft = hooksim.run_history(scn, stats)
    if scn.get("real_process"):
        # cross-validation of the simulated process boundary: the same history, every run in a fresh interpreter
        st2 = Stats()
        probs_real, obs_real = hooksim.run_history(scn, st2, real_process=True)
        stats.inc("histories_cross_validated_with_real_processes")
        stats.inc("real_process_runs", st2.get("real_process_runs"))
        def canon_obs(obs):
            # inside a concurrent-import section the ORDER of the loads depends on the schedule, and the schedule on how warm the
            # process is (a fresh interpreter executes more lines of the hook on first use): such runs are compared as multisets
            return [sorted(map(repr, o)) if any(op_["op"] == "par" for op_ in run_["ops"]) else o
                    for o, run_ in zip(obs, scn["runs"])]

        if not probs and not probs_real and canon_obs(obs_real) != canon_obs(obs_soft):
            from ..core import HarnessError

            raise HarnessError(f"soft restart diverges from real processes (seed {scn['seed']}): soft={obs_soft} real={obs_real}")
        probs = probs + [dict(p, mode="real-process") for p in probs_real]
    stats.inc("runs")
    stats.inc("evaluations", stats.get("modules_loaded"))
    viols, seen = [], set()
    for p in probs:
        s = _sig(p)
        key = repr(sorted(s.items()))
        if key not in seen:
            seen.add(key)
            viols.append(violation(PID, "run-observation", p, sig=s))
    ops = scn["runs"][0]["ops"]
    feat = digest([[(o["op"], o.get("names"), o.get("checker"), o.get("id"), o.get("module")) for o in ops]])
    return {"violations": viols, "stats": stats.c, "features": [feat], "digest": digest([probs, stats.c.get("modules_loaded")]),
            "sample": {"ops": ops[:10], "forest_imports": scn["forest"]["imports"]}}
