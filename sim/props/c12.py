"""C12 -- a check's verdict never depends on earlier, unrelated activity in the process.

Fault-sequence property.  Run index < N_CATALOGUE: catalogue mode -- one operation of a fixed
catalogue (16 kinds x 3 seeded variations), a dry run counts its call-outs, then EVERY single fault
(site, k, exception class in 7 classes) is injected, the exception is swallowed by the harness and a
probe battery is run in the same thread.  Run index >= N_CATALOGUE: seeded random histories of 1-8
catalogue operations with 0-3 faults.

Oracle 2 (insertion invariance): a base history of checks inside context blocks gives the same verdicts with and
without unrelated activity spliced in.  Oracle 1: the battery's verdict vector after the history == the vector recorded on the clean state of the
same world just before the history (clean-vs-after-history), incl. the white-box flags: flatten mode,
'?' label, _skip_instancecheck of every annotation object, identity of importlib's cache_from_source,
sys.meta_path, config switches."""

import atexit
import importlib
import importlib._bootstrap_external as _be
import os
import shutil
import sys
import tempfile

import numpy as np

import jaxtyping
from jaxtyping import Float, PyTree, jaxtyped

from .. import ctxsim, seams
from ..core import Stats, digest, rng, violation
from ..gen import Gen

PID = "C12"
LEVEL = "fault_enumeration"
ENGINE = "ctxsim"
CHUNK = 2
N_KINDS = 19
GEN_TAKES_INDEX = True
N_CATALOGUE = 57
REACH = ['mode:catalogue', 'mode:random', 'mode:insertion', 'fault_fired:module.body', 'fault_fired:tc.decorate', 'fault_fired:stdout.write', 'fault_fired:node.flatten', 'inserted_inside_live_context']  # counters (prefixes) that a healthy batch makes non-zero; gaps are reported in the evidence
BUDGET = {"quick": 45, "thorough": 600}
RULE = (
    "Catalogue mode (run index < 48): one catalogue operation (array check on duck arrays at top level / "
    "in a context; PyTree checks with registered nodes, metaclass leaves, '?' axes, structure names, nested "
    "PyTree, union/tuple leaves; new/old/None-style and dataclass calls with checks in the body; decoration "
    "of functions and generator functions sharing annotation objects with the probes; pickle/copy/deepcopy; "
    "install_import_hook + import of a module whose body is a call-out + uninstall; print_bindings with a "
    "failing stdout) x every call-out x {RuntimeError, TypeError, AnnotationError, KeyboardInterrupt, "
    "SystemExit, GeneratorExit, Abort}, exhaustively.  Random mode: histories of 1-8 such operations with "
    "0-3 faults; 40% of the random runs are INSERTION runs: a base history of checks inside context blocks is executed "
    "twice, once as is and once with unrelated activity spliced in (decorations -- new/old/None style, beartype included, "
    "also INSIDE the live context -- mentioning the same annotation objects, pickling, hook install/import/uninstall, "
    "calls of other decorated functions, other context blocks that fail or raise) and the verdicts of the base operations "
    "must be identical.  After each (non-insertion) history a probe battery (12 probes + one per annotation object) is compared "
    "with its clean value.  evaluations = variants executed; distinct_nontrivial = distinct (operation "
    "kind, site, k, exception class) placements whose fault actually fired + distinct fault-free histories."
)
ASSUMPTIONS = [
    "faults are exceptions raised by code jaxtyping calls; the probe battery is finite",
    "hook operations run with bytecode caching off (sys.dont_write_bytecode) so that C18 effects cannot mask or cause a C12 verdict",
]
COMPONENTS = {"real": ["jaxtyping", "typeguard", "beartype", "importlib (hook operations)", "pickle/copy"],
              "stub": ["Duck arrays, Node, Leaf metaclass, FmtObj, spy typechecker, generated module files"]}

_DIR = None
_ORIG_CFS = _be.cache_from_source
KIND_NAMES = ["arr-top", "arr-ctx", "tree-top", "tree-ctx", "call-new", "call-old", "call-none", "call-dc", "decorate",
              "decorate-gen-old", "decorate-gen-new", "pickle", "hook", "obs-failing-stdout", "tree-nested", "tree-union", "ctx-object-reentered", "tree-nested-structured-misuse", "switch-toggled-inside-context"]


def worker_init():
    global _DIR
    ctxsim.warm_up()
    sys.dont_write_bytecode = True
    from ..core import scratch_dir

    _DIR = scratch_dir("jtv_c12_")
    for name in ("c12mod_a", "c12mod_b"):
        with open(os.path.join(_DIR, name + ".py"), "w") as f:
            f.write("import sim.seams as _S\n_S.hit('module.body')\n\ndef f(x: int) -> int:\n    return x\n")
    with open(os.path.join(_DIR, "c12plain.py"), "w") as f:
        f.write("def f(x: int) -> int:\n    return x\n")
    sys.path.insert(0, _DIR)
    importlib.invalidate_caches()


# ------------------------------------------------------------------------------------------
# generation

def _mk(seed):
    r = rng(seed, "program")
    g = Gen(r, names=("a", "b", "c"), sizes=(1, 2, 3), var_names=("v",), allow_sym=True, max_tokens=3,
            sym_exprs=["a+1", "{k}", "{o.n}+1", "zz+1"])
    pref = {"a": r.randrange(1, 4), "b": r.randrange(1, 4), "c": 2, "n": 2, "*v": tuple(r.choice((1, 2)) for _ in range(r.randrange(0, 3))),
            "{k}": 2, "{o.n}": 2}
    return r, g, pref


def _op_of_kind(kind, r, g, pref, fns):
    """Returns a list of ops implementing one catalogue operation."""
    def arr(at=None, vt=None, p_bad=0.2, **kw):
        a = g.arr_ann(atype=at or r.choice(("duck", "duck", "mduck", "any")), **kw)
        v = vt or {"duck": "duck", "mduck": "mduck", "any": "duck", "np": "np"}[g.anns[a]["atype"]]
        return {"op": "arr", "ann": a, "val": g.arr_val(a, pref, p_bad=p_bad, vt=v)}

    def tree(leafkind, struct, nested=False, node_ok=True):
        gq = Gen(r, names=("a", "n"), sizes=(1, 2, 3), var_names=("v",), allow_sym=False, allow_q=struct is not None, max_tokens=2)
        gq.anns, gq._ann_index = g.anns, g._ann_index
        if leafkind == "arr":
            leaf = gq.arr_ann(atype=r.choice(("duck", "mduck")), q_ok=struct is not None, min_tokens=1, dtype="Float")
        elif leafkind == "union":
            a1 = gq.arr_ann(atype="duck", min_tokens=1, dtype="Float")
            leaf = g.add_ann({"k": "union", "items": [a1, "str"]})
        elif leafkind == "tuple":
            a1 = gq.arr_ann(atype="duck", min_tokens=1, dtype="Float")
            leaf = g.add_ann({"k": "tuple", "items": [a1, "int"]})
        else:
            leaf = leafkind
        if nested:
            leaf = g.add_ann({"k": "tree", "leaf": leaf, "struct": None})
        ta = g.add_ann({"k": "tree", "leaf": leaf, "struct": struct})
        skel = g.tree_shape(r.randrange(1, 3), 5, node_ok=node_ok)
        bad = r.randrange(0, 6) if r.random() < 0.4 else -1

        def lv(i):
            spec = g.anns.get(leaf, {})
            while spec.get("k") == "tree":
                spec = g.anns.get(spec["leaf"], {"k": spec["leaf"]})
            if spec.get("k") == "arr":
                aid = [k for k, v in g.anns.items() if v is spec][0]
                return g.arr_val(aid, dict(pref, n=pref["n"] + i % 2), p_bad=1.0 if i == bad else 0.0,
                                 vt="mduck" if spec["atype"] == "mduck" else "duck")
            if spec.get("k") == "union":
                if r.random() < 0.4:
                    return {"t": "str", "v": "s"}
                return g.arr_val(spec["items"][0], pref, p_bad=0.3 if i == bad else 0.0, vt="duck")
            if spec.get("k") == "tuple":
                return {"t": "tuple", "c": [g.arr_val(spec["items"][0], pref, p_bad=0.5 if i == bad else 0.0, vt="duck"),
                                            {"t": "int", "v": 1}]}
            if leafkind == "leaf":
                return {"t": "leaf"} if i != bad else {"t": "int", "v": 0}
            return {"t": "int", "v": i} if i != bad else {"t": "str", "v": "x"}

        return {"op": "tree", "ann": ta, "val": g.fill_tree(skel, lv)}

    def fn(style, kindf="fn", tc=None, lazy=False, ret_iter=False):
        fid = f"F{len(fns)}"
        params = []
        for j in range(r.randrange(1, 3)):
            params.append([f"x{j}", g.arr_ann(atype=r.choice(("duck", "mduck")), min_tokens=1)])
        if r.random() < 0.5 and kindf != "dc":
            params.append(["k", None])
        ret = None
        if kindf != "dc":
            ret = params[0][1]
            if ret_iter:
                ret = g.add_ann({"k": "iter", "item": ret})
        fns[fid] = {"style": style, "tc": tc or r.choice(("tg", "bt", "min")), "kind": kindf, "params": params, "ret": ret,
                    "lazy": lazy}
        return fid

    def call(fid, store=None):
        f = fns[fid]
        args = []
        for name, aref in f["params"]:
            if aref is None:
                args.append({"t": "int", "v": 2})
            else:
                at = g.anns[aref]["atype"]
                args.append(g.arr_val(aref, pref, p_bad=0.15, vt="mduck" if at == "mduck" else "duck"))
        body = [arr(p_bad=0.3), {"op": "obs"}] if r.random() < 0.7 else []
        op = {"op": "call", "fn": fid, "args": args, "kw": r.choice((0, 2)), "body": body,
              "ret": {"t": "arg", "n": f["params"][0][0]} if f.get("ret") and f["kind"] != "gen" else None,
              "exit": "ret" if r.random() < 0.8 else ["raise", "ValueError"]}
        if store:
            op["store"] = store
        return op

    name = KIND_NAMES[kind]
    if name == "arr-top":
        return [arr()]
    if name == "arr-ctx":
        return [{"op": "ctx", "body": [arr(p_bad=0.0), arr(at="mduck")], "exit": "ret"}]
    if name == "tree-top":
        return [tree("arr", r.choice(("T", "T", None)))]
    if name == "tree-ctx":
        return [{"op": "ctx", "body": [tree(r.choice(("leaf", "arr")), "T"), tree("int", "T")], "exit": "ret"}]
    if name == "call-new":
        return [call(fn("new"))]
    if name == "call-old":
        return [call(fn("old", tc=r.choice(("tg", "min"))))]
    if name == "call-none":
        return [call(fn("none"))]
    if name == "call-dc":
        return [call(fn("new", "dc"))]
    if name == "decorate":
        fid = fn(r.choice(("new", "old", "none")), lazy=True)
        return [{"op": "decorate", "fn": fid}, call(fid)]
    if name == "decorate-gen-old":
        fid = fn("old", "gen", tc=r.choice(("tg", "min")), lazy=True, ret_iter=True)
        ops = [{"op": "decorate", "fn": fid}]
        if r.random() < 0.5:  # ... and its annotation objects are then pickled (e.g. sent to a worker process)
            ops.append({"op": "pickle", "ann": g.anns[fns[fid]["ret"]]["item"], "how": r.choice(("pickle", "deepcopy"))})
        return ops
    if name == "decorate-gen-new":
        fid = fn("new", "gen", lazy=True, ret_iter=True)
        return [{"op": "decorate", "fn": fid}, dict(call(fid, store="g0"), body=[{"op": "obs"}, {"op": "yield"}]),
                {"op": "next", "var": "g0"}]
    if name == "pickle":
        a = arr()
        return [a, {"op": "pickle", "ann": a["ann"], "how": r.choice(("pickle", "copy", "deepcopy"))}]
    if name == "hook":
        return [{"op": "hook", "module": r.choice(("c12mod_a", "c12mod_b")), "checker": r.choice(("sim.seams.spy_tc", None)),
                 "with": r.random() < 0.5}]
    if name == "obs-failing-stdout":
        return [{"op": "ctx", "body": [arr(at="np", vt="np", p_bad=0.0), {"op": "obs"}], "exit": "ret"}]
    if name == "tree-nested":
        return [tree("arr", r.choice(("T", None)), nested=True)]
    if name == "tree-union":
        return [tree(r.choice(("union", "tuple")), r.choice(("T", None)), node_ok=False)]
    if name == "tree-nested-structured-misuse":
        # documented misuse: a '?' axis beneath TWO structured PyTrees is ambiguous -> AnnotationError; the application catches it
        q = g.add_ann({"k": "arr", "dtype": "Float", "atype": "np", "dims": "?n", "toks": []})
        inner = g.add_ann({"k": "tree", "leaf": q, "struct": "S"})
        outer = g.add_ann({"k": "tree", "leaf": inner, "struct": "T"})
        val = {"t": "tuple", "c": [{"t": "np", "s": [2], "d": "float32"}, {"t": "np", "s": [3], "d": "float32"}]}
        op = {"op": "tree", "ann": outer, "val": val}
        return [op] if r.random() < 0.5 else [{"op": "ctx", "body": [op], "exit": "ret"}]
    if name == "switch-toggled-inside-context":
        # checking is switched off while a context block / a decorated call is open, and on again afterwards
        off = {"op": "toggle", "item": "jaxtyping_disable", "value": r.choice((True, "1", "true"))}
        on = {"op": "toggle", "item": "jaxtyping_disable", "value": False}
        if r.random() < 0.5:
            return [{"op": "ctx", "body": [arr(p_bad=0.0), off], "exit": "ret"}, on]
        c = call(fn(r.choice(("new", "none"))))
        c["body"] = list(c["body"]) + [off]
        return [c, on]
    if name == "ctx-object-reentered":
        # the program keeps one `ctx = jaxtyped("context")` object and enters it again while it is already entered
        inner = {"op": "ctx", "obj": "o1", "body": [arr(p_bad=0.0)], "exit": "ret" if r.random() < 0.6 else ["raise", "ValueError"]}
        return [{"op": "ctx", "obj": "o1", "body": [arr(p_bad=0.0), inner, arr(at="mduck")], "exit": "ret"}]
    raise ValueError(name)


def gen_insertion(seed):
    """Insertion-invariance mode: a base history of checks inside context blocks, and the same history with UNRELATED
    activity spliced in (decorations that mention the same annotation objects -- also inside the live context --,
    pickling, hook installation, calls of other decorated functions, other context blocks with their own failing checks).
    The verdicts of the base operations must not change."""
    r, g, pref = _mk(seed)
    fns = {}
    pool_arr = [g.arr_ann(atype=r.choice(("np", "duck")), min_tokens=1) for _ in range(r.randrange(2, 4))]
    pool_tree = [g.add_ann({"k": "tree", "leaf": r.choice(["int"] + pool_arr), "struct": r.choice(("T", "T", "S", None))})
                 for _ in range(r.randrange(1, 3))]
    union_leaf = None
    if r.random() < 0.5:
        # a Union of two array annotations that can BOTH match a leaf (which member binds is history-free in a correct
        # implementation: members are tried in declaration order every time)
        u1 = g.add_ann({"k": "arr", "dtype": "Float", "atype": "np", "dims": "a", "toks": [{"kind": "named", "name": "a"}]})
        u2 = g.add_ann({"k": "arr", "dtype": "Float", "atype": "np", "dims": "b", "toks": [{"kind": "named", "name": "b"}]})
        union_leaf = g.add_ann({"k": "union", "items": [u1, u2]})
        pool_tree.append(g.add_ann({"k": "tree", "leaf": union_leaf, "struct": None}))

    def check():
        if r.random() < 0.55:
            a = r.choice(pool_arr)
            vt = "np" if g.anns[a]["atype"] == "np" else "duck"
            return {"op": "arr", "ann": a, "val": g.arr_val(a, pref, p_bad=0.2, vt=vt)}
        ta = r.choice(pool_tree)
        leaf = g.anns[ta]["leaf"]
        skel = g.tree_shape(r.randrange(0, 3), 4, node_ok=False)

        def lv(i):
            if leaf == "int":
                return {"t": "int", "v": i}
            if g.anns[leaf]["k"] == "union":
                return {"t": "np", "s": [r.choice((pref["a"], pref["b"], 4))], "d": "float32"}
            return g.arr_val(leaf, pref, p_bad=0.1, vt="np" if g.anns[leaf]["atype"] == "np" else "duck")

        return {"op": "tree", "ann": ta, "val": g.fill_tree(skel, lv)}

    base = []
    for bi in range(r.randrange(1, 4)):
        body = [check() for _ in range(r.randrange(2, 7))]
        if r.random() < 0.5:
            body.append({"op": "obs"})
        base.append({"op": "ctx", "body": body, "exit": "ret"})
    c = [0]

    def ids(ops):
        for o in ops:
            o["_id"] = f"b{c[0]}"
            c[0] += 1
            if isinstance(o.get("body"), list):
                ids(o["body"])

    ids(base)

    def unrelated():
        x = r.random()
        if x < 0.45:
            fid = f"F{len(fns)}"
            style = r.choice(("new", "new", "old", "none"))
            params = [[f"x{j}", r.choice(pool_arr + pool_tree)] for j in range(r.randrange(1, 3))]
            fns[fid] = {"style": style, "tc": r.choice(("tg", "bt", "bt", "min")), "kind": r.choice(("fn", "fn", "method", "dc")) if style == "new" else "fn",
                        "params": params, "ret": None, "lazy": True}
            ops = [{"op": "decorate", "fn": fid}]
            if r.random() < 0.5:
                args = []
                for _, aref in params:
                    sp = g.anns[aref]
                    if sp["k"] == "tree" and g.anns.get(sp["leaf"], {}).get("k") == "union":
                        args.append({"t": "tuple", "c": [{"t": "np", "s": [pref["b"]], "d": "float32"}]})
                    elif sp["k"] == "tree":
                        args.append({"t": "tuple", "c": [{"t": "int", "v": 1}]} if sp["leaf"] == "int" else
                                    {"t": "tuple", "c": [g.arr_val(sp["leaf"], pref, p_bad=0.2, vt="np" if g.anns[sp["leaf"]]["atype"] == "np" else "duck")]})
                    else:
                        args.append(g.arr_val(aref, pref, p_bad=0.3, vt="np" if sp["atype"] == "np" else "duck"))
                ops.append({"op": "call", "fn": fid, "args": args, "kw": 0, "body": [check()], "ret": None, "exit": "ret"})
            return ops
        if x < 0.52:
            # a bare, FAILING check of an annotation over axis names that the base history never uses, typed right into the live
            # context (fails after binding something -> rollback path; wrong rank; fixed size; symbolic): it binds nothing, so
            # neither the base verdicts nor what print_bindings() shows may change.  (A passing one would legitimately add its
            # own names to the printed bindings -- an early version inserted those too and raised a false alarm on `obs`.)
            dims, shape = r.choice((("zq zq", [2, 3]), ("zq zr", [2]), ("zq 4", [3, 5]), ("*zv zq zq", [2, 3, 4]), ("zq zq+1", [2, 2])))
            za = g.add_ann({"k": "arr", "dtype": "Float", "atype": "np", "dims": dims, "toks": []})
            return [{"op": "arr", "ann": za, "val": {"t": "np", "s": shape, "d": "float32"}}]
        if x < 0.6:
            return [{"op": "pickle", "ann": r.choice(pool_arr), "how": r.choice(("pickle", "copy", "deepcopy"))}]
        if x < 0.72:
            return [{"op": "hook", "module": r.choice(("c12mod_a", "c12mod_b")), "checker": r.choice(("sim.seams.spy_tc", None)), "with": True}]
        return [{"op": "ctx", "body": [check() for _ in range(r.randrange(1, 4))],
                 "exit": "ret" if r.random() < 0.6 else ["raise", r.choice(("ValueError", "KeyboardInterrupt"))]}]

    ins = []
    for _ in range(r.randrange(1, 5)):
        bi = r.randrange(-1, len(base))
        pos = r.randrange(0, (len(base[bi]["body"]) if bi >= 0 else len(base)) + 1)
        ins.append({"block": bi, "pos": pos, "ops": unrelated()})
    return {"engine": ENGINE, "property": PID, "seed": seed, "anns": g.anns, "fns": fns, "base": base, "insertions": ins,
            "history": [], "kinds": ["insertion"], "faults": [], "mode": "insertion"}


def gen(seed, tier="quick", index=None):
    if index is not None and index >= N_CATALOGUE and rng(seed, "mode3").random() < 0.4:
        return gen_insertion(seed)
    r, g, pref = _mk(seed)
    fns = {}
    cat = rng(seed, "mode").random() < 0.5 if index is None else index < N_CATALOGUE
    if cat:
        kind = rng(seed, "kind").randrange(N_KINDS) if index is None else index % N_KINDS
        hist = _op_of_kind(kind, r, g, pref, fns)
        kinds = [KIND_NAMES[kind]]
        faults = "enumerate"
    else:
        hist, kinds = [], []
        for _ in range(r.randrange(1, 9)):
            kind = r.randrange(N_KINDS)
            kinds.append(KIND_NAMES[kind])
            hist.extend(_op_of_kind(kind, r, g, pref, fns))
        fr = rng(seed, "faults")
        faults = []
        for _ in range(fr.choice((0, 1, 1, 2, 3))):
            faults.append({"site": fr.choice(seams.SITES), "k": fr.randrange(1, 12), "exc": fr.choice(seams.EXC_ALL)})
    return {"engine": ENGINE, "property": PID, "seed": seed, "anns": g.anns, "fns": fns, "history": hist, "kinds": kinds,
            "faults": faults, "mode": "catalogue" if cat else "random", "keep_exc": rng(seed, "keepexc").random() < 0.4}


# ------------------------------------------------------------------------------------------
# probe battery

def _oc(thunk):
    try:
        return bool(thunk())
    except BaseException as e:
        return "!" + type(e).__name__


def battery(d, scn):
    W = d.interp.world
    res = {}
    with seams.quiet():
        res["P1:wrong-dtype-rejected"] = _oc(lambda: isinstance(np.zeros((3,), "int32"), Float[np.ndarray, "..."]))
        res["P2:wrong-rank-rejected"] = _oc(lambda: isinstance(np.zeros((3, 4), "float32"), Float[np.ndarray, "a"]))
        res["P2:wrong-size-rejected"] = _oc(lambda: isinstance(np.zeros((4,), "float32"), Float[np.ndarray, "3"]))
        res["P2:nonarray-rejected"] = _oc(lambda: isinstance("str", Float[np.ndarray, "..."]))
        res["P4:?-outside-pytree"] = _oc(lambda: isinstance(np.zeros((2,), "float32"), Float[np.ndarray, "?n"]))
        res["P5:?-inside-pytree-works"] = _oc(lambda: isinstance((np.zeros((2,), "float32"), np.zeros((3,), "float32")),
                                                               PyTree[Float[np.ndarray, "?n"], "T"]))
        res["P5:pytree-leaf-rejected"] = _oc(lambda: isinstance((np.zeros((2,), "float32"), np.zeros((3,), "int32")),
                                                              PyTree[Float[np.ndarray, "..."]]))
        res["P6:top-level-bindings"] = ctxsim.bindings_text()
        snap = ctxsim.snapshot()
        res["P6:depth"] = snap.get("depth")
        res["P9:treepath"] = snap.get("treepath")
        res["P9:treeflatten"] = snap.get("treeflatten")
        # the very annotation objects used by the history
        for aid, spec in scn["anns"].items():
            if spec["k"] != "arr":
                continue
            ann = W.ann(aid)
            res[f"P3:{aid}:nonarray-rejected"] = _oc(lambda: isinstance("notanarray", ann))
            toks = spec["toks"]
            if not any(t["kind"] in ("var", "anonvar") for t in toks):
                vt = {"np": "np", "any": "duck"}.get(spec["atype"], spec["atype"])
                val = ctxsim.build_value({"t": vt, "s": [1] * (len(toks) + 1), "d": "float32"})
                res[f"P3:{aid}:wrong-rank-rejected"] = _oc(lambda: isinstance(val, ann))
            try:
                res[f"P9:{aid}:skip"] = bool(type.__getattribute__(ann, "_skip_instancecheck"))
            except AttributeError:
                pass
            # a separately built annotation with the same spelling, sent through pickle, still rejects a non-array
            try:
                import pickle

                cat = ctxsim.struct_category(spec["dtype"]) if spec["dtype"].startswith("Struct") else getattr(jaxtyping, spec["dtype"])
                base = W.ann(spec["atype"][1:]) if spec["atype"].startswith("@") else ctxsim.ATYPES[spec["atype"]]
                fresh = pickle.loads(pickle.dumps(cat[base, spec["dims"]]))
                res[f"P11:{aid}:fresh-pickled-rejects"] = _oc(lambda: isinstance("notanarray", fresh))
            except Exception as e:
                res[f"P11:{aid}:fresh-pickled-rejects"] = "!" + type(e).__name__
        # a freshly decorated function sees its own argument

        def fresh():
            @jaxtyped(typechecker=seams._real_checker("tg"))
            def f(k: int, x: Float[np.ndarray, "{k}"]):
                return 1

            ok = f(3, np.zeros((3,), "float32"))
            try:
                f(3, np.zeros((4,), "float32"))
                return (ok, "accepted")
            except jaxtyping.TypeCheckError:
                return (ok, "TypeCheckError")

        try:
            res["P7:fresh-decorated"] = fresh()
        except BaseException as e:
            res["P7:fresh-decorated"] = "!" + type(e).__name__
        # import machinery
        res["P8:cache_from_source"] = _be.cache_from_source is _ORIG_CFS
        res["P8:finders"] = sum(1 for f in sys.meta_path if (getattr(type(f), "__module__", "") or "").startswith("jaxtyping"))
        sys.modules.pop("c12plain", None)
        try:
            m = importlib.import_module("c12plain")
            res["P8:plain-import-uninstrumented"] = (not hasattr(m.f, "__wrapped__")) and m.f("notint") == "notint"
        except BaseException as e:
            res["P8:plain-import-uninstrumented"] = "!" + type(e).__name__
        sys.modules.pop("c12plain", None)
        res["P10:config"] = (jaxtyping.config.jaxtyping_disable, jaxtyping.config.jaxtyping_remove_typechecker_stack)
    return res


# ------------------------------------------------------------------------------------------
def _cleanup_process_state():
    """Undo leaked process-wide state so that one violation does not poison later variants."""
    _be.cache_from_source = _ORIG_CFS
    sys.meta_path[:] = [f for f in sys.meta_path if not (getattr(type(f), "__module__", "") or "").startswith("jaxtyping")]
    st = jaxtyping._storage
    try:
        st._shape_storage.memo_stack = []
        st._treepath_storage.value = None
        st._treeflatten_storage.value = False
    except Exception:
        pass


def _variant(scn, plan):
    d = ctxsim.Direct(scn)
    try:
        clean = battery(d, scn)
        from ..core import gc_point

        gc_point()  # temporaries of the clean battery (fresh annotation classes) must be gone before the history starts
        d.reset_faults(plan)
        outs = []
        ctxsim.keep_exceptions(bool(scn.get("keep_exc")))  # the application holds on to what it caught (until after the probes)
        for i, op in enumerate(scn["history"]):
            outs.append(d.interp.exec_op(op, str(i)))
        fired = list(d.state.fired)
        counts = dict(d.state.counts)
        d.reset_faults({})
        seams.take_output()
        jaxtyping.config.update("jaxtyping_disable", False)  # (a history cut short by a fault may leave the switch on: C19's business)
        after = battery(d, scn)
    finally:
        ctxsim.keep_exceptions(False)
        d.close()
    return clean, after, outs, fired, counts


def _attribute(scn, key):
    """Structural cause of a probe difference (used as the known-finding signature)."""
    cls = key.split(":")[0]
    if cls in ("P3", "P9") and len(key.split(":")) == 3:
        aid = key.split(":")[1]
        for op in scn["history"]:
            if op["op"] == "decorate":
                f = scn["fns"][op["fn"]]
                if f["style"] == "old" and f["kind"] == "gen" and f.get("ret"):
                    rs = scn["anns"].get(f["ret"], {})
                    if rs.get("item") == aid or f["ret"] == aid:
                        return "old-style-generator-decoration-makes-return-annotation-transparent"
    return "other"


def execute(scn):
    return ctxsim.in_fresh_thread(_execute, scn)


def _splice(scn):
    import copy

    prog = copy.deepcopy(scn["base"])
    blocks = list(prog)  # resolve block references BEFORE top-level insertions shift the indices
    todo = []
    for k, ins in enumerate(scn["insertions"]):
        tgt = prog if ins["block"] < 0 else blocks[ins["block"]]["body"]
        todo.append((tgt, min(ins["pos"], len(tgt)), k, copy.deepcopy(ins["ops"])))
    for tgt, pos, k, ops in sorted(todo, key=lambda t: (-t[1], -t[2])):
        tgt[pos:pos] = ops
    return prog


def _run_prog(scn, prog):
    d = ctxsim.Direct(scn)
    try:
        d.reset_faults({})
        for i, op in enumerate(prog):
            d.interp.exec_op(op, str(i))
        seams.take_output()
        tr = list(d.run.transcript)
    finally:
        d.close()
    return tr


def _flat_ids(ops, out):
    for i, o in enumerate(ops):
        out.append(o)
        if isinstance(o.get("body"), list):
            _flat_ids(o["body"], out)
    return out


def _execute_insertion(scn):
    stats = Stats()
    base_ops = [o for o in _flat_ids(scn["base"], []) if o["op"] in ("arr", "tree", "obs")]
    prog_b = _splice(scn)

    def outcomes(prog, tr):
        # map transcript paths back to operations; keep the base operations (ids b*) in program order
        byid = {}

        def walk(ops, prefix):
            for i, o in enumerate(ops):
                pth = f"{prefix}.{i}" if prefix else str(i)
                if str(o.get("_id", "")).startswith("b"):
                    byid[pth] = o["_id"]
                if isinstance(o.get("body"), list):
                    walk(o["body"], pth)

        walk(prog, "")
        return {byid[p]: out for p, k, out in tr if p in byid and k in ("arr", "tree", "obs")}

    tr_a = _run_prog(scn, scn["base"])
    _cleanup_process_state()
    tr_b = _run_prog(scn, prog_b)
    _cleanup_process_state()
    oa, ob = outcomes(scn["base"], tr_a), outcomes(prog_b, tr_b)
    viols = []
    for o in base_ops:
        stats.inc("evaluations")
        if oa.get(o["_id"]) != ob.get(o["_id"]):
            kinds_ins = sorted({x["op"] + ":" + (scn["fns"][x["fn"]]["style"] + ":" + scn["fns"][x["fn"]]["tc"] if x["op"] == "decorate" else "")
                                for i in scn["insertions"] for x in i["ops"]})
            viols.append(violation(PID, "insertion-invariance",
                                   {"operation": {k: v for k, v in o.items() if k != "body"}, "annotation": scn["anns"].get(o.get("ann")),
                                    "without_unrelated_activity": oa.get(o["_id"]), "with_unrelated_activity": ob.get(o["_id"]),
                                    "inserted": scn["insertions"]},
                                   sig={"oracle": "insertion-invariance", "op": o["op"], "inserted": "+".join(kinds_ins)[:80]}))
            break
    stats.inc("runs")
    stats.inc("mode:insertion")
    for i in scn["insertions"]:
        for x in i["ops"]:
            stats.inc("inserted:" + x["op"])
        stats.inc("inserted_inside_live_context" if i["block"] >= 0 else "inserted_between_contexts")
    return {"violations": viols, "stats": stats.c,
            "features": [digest([[o["op"] for o in base_ops], [[x["op"] for x in i["ops"]] for i in scn["insertions"]], [i["block"] >= 0 for i in scn["insertions"]]])],
            "digest": digest([tr_a, tr_b]),
            "sample": {"mode": "insertion", "base_ops": len(base_ops), "insertions": [[i["block"], i["pos"], [x["op"] for x in i["ops"]]] for i in scn["insertions"]]}}


def _execute(scn):
    if scn.get("mode") == "insertion":
        return _execute_insertion(scn)
    stats = Stats()
    feats = set()
    viols = []
    kinds = "+".join(scn.get("kinds", []))
    if scn["faults"] == "enumerate":
        _, _, _, _, counts = _variant(scn, {})
        _cleanup_process_state()
        plans = [[]]
        for site, n in sorted(counts.items()):
            for k in range(1, n + 1):
                for exc in seams.EXC_ALL:
                    plans.append([{"site": site, "k": k, "exc": exc}])
    else:
        plans = [scn["faults"]]
    sample_counts = None
    for vi, fl in enumerate(plans):
        if vi % 25 == 0:
            from ..core import gc_point

            gc_point()
        plan = {(f["site"], f["k"]): f["exc"] for f in fl}
        clean, after, outs, fired, counts = _variant(scn, plan)
        if sample_counts is None:
            sample_counts = counts
        stats.inc("evaluations")
        for site, n, exc in fired:
            stats.inc(f"fault_fired:{site}:{exc}")
            stats.inc("faults_fired")
            feats.add(f"{kinds}|{site}|{n}|{exc}")
        if not fl:
            feats.add(f"{kinds}|faultfree|{digest(outs)}")
        stats.inc("faults_planned", len(fl))
        if clean != after:
            keys = sorted(k for k in set(clean) | set(after) if clean.get(k) != after.get(k))
            groups = {}
            for key in keys:
                cause = _attribute(scn, key)
                probe = key.split(":")[0] + ":" + key.split(":")[-1]
                groups.setdefault((probe, cause), []).append(key)
            for (probe, cause), ks in sorted(groups.items()):
                key = ks[0]
                v = violation(PID, "clean-vs-after-history",
                              {"probe": key, "clean": clean.get(key), "after": after.get(key), "all_differing": keys[:8],
                               "faults": fl, "fired": fired, "history_kinds": scn.get("kinds"), "outcomes": outs},
                              sig={"oracle": "clean-vs-after-history", "probe": probe, "cause": cause})
                v["faults"] = fl
                viols.append(v)
            _cleanup_process_state()
            if len(viols) >= 30:
                break
    stats.inc("runs")
    stats.inc("mode:" + scn["mode"])
    for k in scn.get("kinds", []):
        stats.inc("kind:" + k)
    seen, uniq = set(), []
    for v in viols:
        key = repr(sorted(v["sig"].items()))
        if key not in seen:
            seen.add(key)
            uniq.append(v)
    return {"violations": uniq, "stats": stats.c, "features": sorted(feats),
            "digest": digest([[v["sig"] for v in uniq], len(plans)]),
            "sample": {"mode": scn["mode"], "kinds": scn.get("kinds"), "history": scn["history"][:2], "callouts": sample_counts,
                       "variants": len(plans)}}


def concretise(scn, res):
    import copy

    s = copy.deepcopy(scn)
    for v in res["violations"]:
        s["faults"] = v.get("faults", [])
        break
    return s


def reach_check(stats, tier):
    miss = [k for k in KIND_NAMES if not stats.get("kind:" + k)]
    return miss
