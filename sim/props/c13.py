"""C13 -- type-check errors are raised iff violated and describe the failure truthfully.

Ill-typed (and misusing) members of C02's call families, new-style decorator only, plus PyTree- and
union-annotated parameters, under typeguard / beartype / the minimal checker and both values of
jaxtyping_remove_typechecker_stack.  'The bindings in force when the failure was detected' are OBSERVED,
not modelled: the harness's typechecker wrapper sits between jaxtyping and the real checker and, each time
the real checker's exception passes through it (inside the call's context, after the failing check has
rolled itself back, before jaxtyping formats anything), records print_bindings().  The error message is
parsed and compared with the LAST such record of the call (nothing can change the context between that
instant and the formatting of the message)."""

import re

import jaxtyping

from .. import ctxsim, model, seams
from ..core import Stats, digest, rng, violation
from ..gen import assign_ids, dims_text
from . import c02

PID = "C13"
LEVEL = "exploration"
ENGINE = "ctxsim"
CHUNK = 4
REACH = ['message_lists_structure_of_earlier_parameter', 'stage:parameters', 'stage:return', 'misuse:sym', 'misuse:q', 'misuse:struct', 'misuse:brace', 'switch:on', 'switch:off', 'calls_with_fault_fired']  # counters (prefixes) that a healthy batch makes non-zero; gaps are reported in the evidence
BUDGET = {"quick": 40, "thorough": 600}
RULE = (
    "Seeded ill-typed call families as in C02 (failure at any parameter position or at the return value; size, "
    "rank, dtype, array-type and broadcast perturbations), optionally extended with a PyTree[...,'T'] parameter "
    "(leaf k failing / structure mismatch) and a Union parameter whose first alternative fails after binding, "
    "new-style decorator x {typeguard, beartype, minimal} x remove_typechecker_stack in {off,on}; misuse variants "
    "(unbound symbolic name, '?' outside a PyTree, unbound structure name in a composite) at every position. "
    "Oracles: error class / stage sentence / function name / blamed parameter / binding lines == bindings "
    "observed at the failure instant / __cause__ iff switch off / misuse => AnnotationError.  "
    "distinct_nontrivial = distinct (stage, checker, blamed position, #bindings, perturbation) tuples."
)
ASSUMPTIONS = ["message parsing (sim/props/c13.py) is trusted", "bindings are observed through the typechecker seam, not modelled",
               "the blamed-parameter check uses the reference model for array parameters only"]
COMPONENTS = {"real": ["jaxtyping decorator, errors, storage", "typeguard", "beartype"], "stub": ["typechecker wrapper seam", "minimal checker"]}

AX_HDR = "The current values for each jaxtyping axis annotation are as follows."
PT_HDR = "The current values for each jaxtyping PyTree structure annotation are as follows."


def parse_bindings(text):
    """-> (axis lines, structure lines) as sorted LISTS of 'name=value' strings: a single axis 'foo' and a variadic axis
    '*foo' are different bindings that print under the same name, so dictionaries keyed by name would lose one."""
    axes, structs, mode = [], [], None
    for ln in text.splitlines():
        if ln.startswith(AX_HDR):
            mode = "ax"
        elif ln.startswith(PT_HDR):
            mode = "pt"
        elif mode and "=" in ln:
            (axes if mode == "ax" else structs).append(ln.strip())
    return sorted(axes), sorted(structs)


def gen(seed, tier="quick"):
    r = rng(seed, "program")
    mode = r.choice(("ill", "ill", "ill", "misuse"))
    fam = c02.gen_family(r, sym_ok=True, ill_bias=1.0 if mode == "ill" else 0.0,
                         var_names=("v", "a") if r.random() < 0.5 else ("v",))  # '*a' next to 'a': both must be listed
    fam.pop("vals2", None)  # C13 uses one value set per family
    if r.random() < 0.15:
        for v in fam["vals"]:
            if v["t"] == "duck" and r.random() < 0.5:
                v["badrepr"] = True  # an argument / return value whose __repr__ raises: the message must still be a TypeCheckError
    extra = None
    if r.random() < 0.35:
        extra = r.choice(("tree", "union"))
    scn = c02.family_scenario(seed, fam, r, max_perms=3, styles_per_perm=2, with_dc=(extra is None), only_new=True,
                              same_name=r.random() < 0.4)
    scn["property"] = PID
    scn["mode"] = mode
    scn["stack_switch"] = r.random() < 0.5
    if r.random() < 0.2:
        # a displayed value whose __repr__ raises while the message is being formatted (duck arrays have a faultable repr)
        scn["faults"] = [{"site": "repr", "k": r.randrange(1, 6), "exc": r.choice(("RuntimeError", "AttributeError" if False else "ValueError"))}]
    names = [p["name"] for p in fam["params"]]
    if extra:
        # extend every sibling with one more parameter
        if extra == "tree":
            leaf = "AT_leaf"
            scn["anns"][leaf] = {"k": "arr", "dtype": "Float", "atype": "np", "dims": "a", "toks": [{"kind": "named", "name": "a"}]}
            scn["anns"]["AT"] = {"k": "tree", "leaf": leaf, "struct": "T"}
            a = fam["vals"][0]["s"][0] if (fam["vals"][0]["s"] and r.random() < 0.5) else r.choice((1, 2, 3))
            sizes = [a, a, a]
            if r.random() < 0.6:
                sizes[r.randrange(3)] = a + 1
            val = {"t": "tuple", "c": [{"t": "np", "s": [sizes[0]], "d": "float32"},
                                       {"t": "list", "c": [{"t": "np", "s": [sizes[1]], "d": "float32"}, {"t": "np", "s": [sizes[2]], "d": "float32"}]}]}
            if r.random() < 0.6:
                val = {"t": "node", "c": [val]}
                if r.random() < 0.6:  # the custom flattener raises in one of the sibling calls
                    scn["faults"] = [{"site": "node.flatten", "k": r.randrange(1, 8), "exc": r.choice(("RuntimeError", "ValueError"))}]
            scn["extra_leaves"] = [[s_] for s_ in sizes]
            aid = "AT"
        else:
            scn["anns"]["AU1"] = {"k": "arr", "dtype": "Float", "atype": "np", "dims": "c b", "toks": []}
            scn["anns"]["AU2"] = {"k": "arr", "dtype": "Float", "atype": "np", "dims": "c", "toks": []}
            scn["anns"]["AU"] = {"k": "union", "items": ["AU1", "AU2"]}
            val = {"t": "np", "s": r.choice(([2, 9], [2], [3, 3, 3], [r.choice((1, 2, 3))])), "d": "float32"}
            scn["extra_union_shape"] = val["s"]
            aid = "AU"
        for sib, op in zip(scn["siblings"], scn["threads"][0]):
            f = scn["fns"][sib["fn"]]
            pos = r.randrange(len(f["params"]) + 1)
            f["params"].insert(pos, ["xe", aid])
            op["args"].insert(pos, val)
        scn["extra"] = extra
    if mode == "misuse":
        kind = r.choice(("sym", "q", "struct", "brace"))
        for sib, op in zip(scn["siblings"], scn["threads"][0]):
            f = scn["fns"][sib["fn"]]
            pos = r.randrange(len(f["params"]) + 1)
            if kind == "sym":
                scn["anns"]["AM"] = {"k": "arr", "dtype": "Float", "atype": "np", "dims": "zz+1", "toks": []}
                v = {"t": "np", "s": [3], "d": "float32"}
            elif kind == "brace":
                scn["anns"]["AM"] = {"k": "arr", "dtype": "Float", "atype": "np", "dims": "{zz_not_an_argument}", "toks": []}
                v = {"t": "np", "s": [3], "d": "float32"}
            elif kind == "q":
                scn["anns"]["AM"] = {"k": "arr", "dtype": "Float", "atype": "np", "dims": "?q", "toks": []}
                v = {"t": "np", "s": [3], "d": "float32"}
            else:
                scn["anns"]["AM"] = {"k": "tree", "leaf": "int", "struct": "U W"}
                v = {"t": "tuple", "c": [{"t": "int", "v": 1}]}
            f["params"].insert(pos, ["xm", "AM"])
            op["args"].insert(pos, v)
        scn["misuse"] = kind
    if not extra and mode == "ill" and r.random() < 0.3:
        # recursion: the body makes a nested, well-typed call of the SAME function (other sizes), which completes before the outer
        # call fails at its return value -- the outer error must describe the outer call
        ok = c02.gen_family(rng(seed, "inner"), sym_ok=False, ill_bias=0.0)
        for sib, op in zip(scn["siblings"], scn["threads"][0]):
            f = scn["fns"][sib["fn"]]
            if f.get("kind", "fn") != "fn" or len(f["params"]) != len(op["args"]):
                continue
            inner_args = []
            good = True
            for (nm, aref), a in zip(f["params"], op["args"]):
                if aref is None:
                    inner_args.append(a)
                    continue
                sp = scn["anns"][aref]
                toks = model.parse_dims(sp["dims"])
                pref2 = {"a": 5, "b": 6, "c": 7, "*v": (4,), "*a": (3,), "{k}": 2}
                g2 = c02.Gen(rng(seed, "inner", nm), names=("a", "b", "c"), sizes=(5, 6, 7), var_names=("v", "a"))
                toks2 = []
                for t in toks:
                    if t["kind"] == "anonvar":
                        toks2.append({"kind": "anonvar"})
                    elif t["kind"] == "anon":
                        toks2.append({"kind": "anon", "name": ""})
                    else:
                        toks2.append(dict(t))
                try:
                    shape = g2.shape_for(toks2, pref2, p_bad=0.0, p_rank=0.0)
                except Exception:
                    good = False
                    break
                inner_args.append({"t": a["t"] if a["t"] in ("np", "duck") else "np", "s": shape, "d": "float32"})
            inner_ret = None
            if good and f.get("ret"):
                try:
                    rt = [dict(t) if t["kind"] not in ("anonvar", "anon") else ({"kind": "anonvar"} if t["kind"] == "anonvar" else {"kind": "anon", "name": ""})
                          for t in model.parse_dims(scn["anns"][f["ret"]]["dims"])]
                    g3 = c02.Gen(rng(seed, "inner", "ret"), names=("a", "b", "c"), sizes=(5, 6, 7), var_names=("v", "a"), sym_args=("k",))
                    inner_ret = {"t": "np" if scn["anns"][f["ret"]]["atype"] == "np" else "duck",
                                 "s": g3.shape_for(rt, {"a": 5, "b": 6, "c": 7, "*v": (4,), "*a": (3,), "{k}": 2}, p_bad=0.0, p_rank=0.0), "d": "float32"}
                except Exception:
                    good = False
            if good:
                op["body"] = [{"op": "call", "fn": sib["fn"], "args": inner_args, "kw": 0, "body": [], "ret": inner_ret,
                               "exit": "ret", "_nested": True}]
        scn["recursion"] = True
    assign_ids(scn["threads"])
    return scn


class Observer:
    def __init__(self, scn, stats):
        self.scn = scn
        self.stats = stats
        self.viol = []
        self.feats = set()
        self.records = []
        self.saved = []
        self.body0 = 0
        self.fired0 = 0
        self.faulted = set()
        self.full = self.ponly = None

    def tc_cb(self, fn, e, args, kwargs):
        run = self.run
        self.records.append({"fn": getattr(fn, "__name__", "?"), "exc": type(e).__name__ if e is not None else None,
                             "text": ctxsim.bindings_text(),
                             "stage": "return" if run.body_runs > self.body0 else "parameters"})

    def pre(self, interp, run, op, path):
        if op["op"] == "call":
            self.run = run
            self.saved.append((self.records, self.body0, self.fired0))  # calls nest (recursion): one record list per call
            self.records = []
            self.body0 = run.body_runs
            self.fired0 = len(seams.state().fired)
            seams.state().tc_observer = self.tc_cb

    def _v(self, oracle, detail, **sig):
        if len(self.viol) < 4:
            self.viol.append(violation(PID, oracle, detail, sig=dict(oracle=oracle, **sig)))

    def post(self, interp, run, op, path, out):
        if op["op"] != "call":
            return
        try:
            self._post_call(interp, run, op, path, out)
        finally:
            self.records, self.body0, self.fired0 = self.saved.pop() if self.saved else ([], 0, 0)
            if not self.saved:
                seams.state().tc_observer = None

    def _post_call(self, interp, run, op, path, out):
        if op.get("_nested"):
            return  # the inner (well-typed) call of a recursion scenario is not judged itself
        if len(seams.state().fired) != self.fired0:
            self.faulted.add(path)
            self.stats.inc("calls_with_fault_fired")
        scn = self.scn
        f = scn["fns"][op["fn"]]
        self.stats.inc("evaluations")
        exc = out.get("exc") if isinstance(out, dict) else None
        base = {"fn": op["fn"], "checker": f["tc"], "params": [[n, (scn["anns"][a].get("dims") or scn["anns"][a]) if a else None] for n, a in f["params"]],
                "args": op["args"], "ret": op.get("ret")}
        if scn.get("misuse"):
            # misuse must surface as AnnotationError unless something else is ALSO violated (then either)
            if scn["mode"] == "misuse" and not scn.get("extra"):
                if exc != "AnnotationError":
                    self._v("misuse", dict(base, what="misuse of the annotation language did not surface as AnnotationError", got=out),
                            kind=scn["misuse"], got=str(exc))
                self.stats.inc("misuse:" + scn["misuse"])
            elif exc not in ("AnnotationError", "TypeCheckError"):
                self._v("misuse", dict(base, what="misuse swallowed", got=out), kind=scn["misuse"], got=str(exc))
            return
        if exc is None or exc == "AnnotationError":
            return
        if exc != "TypeCheckError":
            self._v("error-class", dict(base, what="a violated annotation did not raise jaxtyping.TypeCheckError", got=out), got=exc)
            return
        if not out.get("is_typeerror"):
            self._v("error-class", dict(base, what="TypeCheckError is not a TypeError"))
        msg = out["msg"]
        recs = [r_ for r_ in self.records]
        fails = [r_ for r_ in recs if r_["exc"] is not None]
        if not fails:
            return  # failure was not produced by the typechecker (e.g. signature problem): nothing to compare
        first = fails[0]
        # the live context when the message is formatted: after the last checker invocation of this call
        # (the localisation loop re-checks parameters one at a time in the same context; re-checks that pass may
        # add bindings, re-checks that fail roll back) -- nothing else runs between that instant and formatting
        last = recs[-1]
        stage = first["stage"]
        m = re.match(r"Type-check error whilst checking the (parameters|return value) of ([^\n]*?)\.\n", msg + "\n")
        if not m:
            m = re.match(r"Type-check error whilst checking the (parameters|return value)\s+of ([^\n]*?)\.\n", msg + "\n")
        if not m:
            self._v("message-stage", dict(base, what="stage sentence not found", msg=msg[:300]))
            return
        said = "parameters" if m.group(1) == "parameters" else "return"
        if not scn.get("misuse") and path not in self.faulted:
            if self.ponly is None:
                self.full, self.ponly = _family_model_with_extra(scn)
            if self.ponly == {"reject"} and (said != "parameters" or out.get("body_runs")):
                self._v("message-stage", dict(base, what="the parameters violate their annotations, yet the failure was reported for the "
                                                        "return value / the body was run", said=said, body_runs=out.get("body_runs")),
                        kind="params-violated-reported-late")
        if said != stage:
            self._v("message-stage", dict(base, what="message names the wrong stage", said=said, observed=stage, msg=msg[:300]))
        kind = f.get("kind", "fn")
        want_name = f"simworld.{ctxsim.py_name(scn, op['fn'])}" if kind != "dc" else f"simworld.{ctxsim.py_name(scn, op['fn'])}.__init__"
        if m.group(2) != want_name:
            self._v("message-function", dict(base, what="message names the wrong function", said=m.group(2), expected=want_name))
        # bindings
        got_ax, got_pt = parse_bindings(msg)
        obs_ax, obs_pt = parse_bindings(last["text"])
        if got_ax != obs_ax or got_pt != obs_pt:
            missing = [x for x in obs_ax + obs_pt if x not in got_ax + got_pt]
            extra = [x for x in got_ax + got_pt if x not in obs_ax + obs_pt]
            if not missing and not extra:  # same lines, different multiplicity
                missing = [x for x in set(obs_ax + obs_pt) if (obs_ax + obs_pt).count(x) > (got_ax + got_pt).count(x)]
            self._v("message-bindings", dict(base, what="binding lines of the message differ from the bindings in force at the failure instant",
                                             message_lists=[got_ax, got_pt], in_force=[obs_ax, obs_pt], missing=missing,
                                             not_in_force=extra, stage=stage),
                    kind=("stale" if extra and not missing else "missing" if missing and not extra else "both"))
        # blamed parameter
        bm = re.search(r"The problem arose whilst typechecking parameter '([^']+)'", msg)
        blamed = bm.group(1) if bm else None
        if stage == "parameters" and blamed is not None:
            names = [n for n, a in f["params"]]
            if blamed not in names:
                self._v("message-blame", dict(base, what="blamed parameter is not a parameter", blamed=blamed))
            else:
                i = names.index(blamed)
                aref = f["params"][i][1]
                spec = scn["anns"].get(aref) if aref else None
                if spec is None:
                    self._v("message-blame", dict(base, what="blamed parameter is not annotated", blamed=blamed))
                elif spec["k"] == "arr":
                    kv = [x.split("=", 1) for x in obs_ax]
                    ctx = model.Ctx({k: int(v) for k, v in kv if _is_int(v)},
                                    {k: (True, eval(v)) for k, v in kv if v.startswith("(")}, {}, {"k": 2})
                    outs, _ = model.match_array(spec, op["args"][i], ctx)
                    # broadcast flag is not printed: re-evaluate with the other flag before complaining
                    ctx2 = model.Ctx(ctx.axes, {k: (False, sh) for k, (b, sh) in ctx.variadics.items()}, {}, {"k": 2})
                    outs2, _ = model.match_array(spec, op["args"][i], ctx2)
                    if outs == {"accept"} and outs2 == {"accept"}:
                        self._v("message-blame", dict(base, what="blamed parameter satisfies its annotation under the bindings in force",
                                                      blamed=blamed, in_force=obs_ax))
        if (stage == "parameters" and blamed is not None and scn.get("extra") == "tree" and path not in self.faulted
                and not scn.get("misuse")):
            names = [n for n, a in f["params"]]
            if "xe" in names and blamed in names and names.index(blamed) > names.index("xe"):
                # history: the PyTree parameter before the blamed one was accepted, so its structure name T is bound and must be
                # among the listed values -- whatever the live state says (a failed check may not take bindings away)
                if not any(x.startswith("T=") for x in got_pt + got_ax):
                    self._v("message-bindings", dict(base, what="the structure name bound by an accepted earlier parameter is missing from "
                                                                "the listed values", blamed=blamed, message_lists=[got_ax, got_pt]),
                            kind="history-missing")
                else:
                    self.stats.inc("message_lists_structure_of_earlier_parameter")
        if stage == "parameters" and blamed is not None and path not in self.faulted and not scn.get("misuse"):
            names = [n for n, a in f["params"]]
            if blamed in names:
                # history: parameters are checked in signature order and the first failure ends the check, so no binding can stem
                # from a parameter AFTER the blamed one
                def ann_names(aref):
                    sp = scn["anns"].get(aref) if aref else None
                    if sp is None:
                        return set()
                    if sp["k"] == "arr":
                        return {t["name"] for t in model.parse_dims(sp["dims"]) if t["kind"] in ("named", "var") and t.get("name")}
                    if sp["k"] == "tree":
                        return ann_names(sp["leaf"]) | set((sp.get("struct") or "").replace("...", " ").split())
                    if sp["k"] in ("union", "tuple"):
                        return set().union(*[ann_names(i) for i in sp["items"]]) if sp["items"] else set()
                    return set()

                upto = set()
                for n_, a_ in f["params"][: names.index(blamed) + 1]:
                    upto |= ann_names(a_)
                later = set()
                for n_, a_ in f["params"][names.index(blamed) + 1:]:
                    later |= ann_names(a_)
                listed = {x.split("=", 1)[0] for x in got_ax + got_pt}
                phantom = sorted((listed & later) - upto)
                if phantom:
                    self._v("message-bindings", dict(base, what="the message lists bindings that only a parameter AFTER the blamed one could "
                                                                "have made (they were never in force)", blamed=blamed, phantom=phantom,
                                                     message_lists=[got_ax, got_pt]), kind="history-phantom")
                # ... nor from the blamed parameter itself when its annotation is ONE jaxtyping check (an array or a PyTree): that check
                # failed, and a failed check binds nothing -- so a name that no EARLIER parameter mentions cannot be listed
                bi = names.index(blamed)
                bspec = scn["anns"].get(f["params"][bi][1]) if f["params"][bi][1] else None
                if bspec is not None and bspec["k"] in ("arr", "tree"):
                    earlier = set()
                    for n_, a_ in f["params"][:bi]:
                        earlier |= ann_names(a_)
                    own = sorted(listed & (ann_names(f["params"][bi][1]) - earlier))
                    self.stats.inc("blamed_parameter_own_names_judged")
                    if own:
                        self._v("message-bindings", dict(base, what="the message lists a binding that only the blamed parameter's own "
                                                                    "(failed, hence rolled-back) check could have made",
                                                         blamed=blamed, phantom=own, message_lists=[got_ax, got_pt]),
                                kind="history-phantom-own")
        if stage == "return" and blamed is not None:
            self._v("message-blame", dict(base, what="return-stage message blames a parameter", blamed=blamed))
        sw = bool(jaxtyping.config.jaxtyping_remove_typechecker_stack)
        if out.get("cause") == sw:
            self._v("message-cause", dict(base, what="__cause__ presence does not match jaxtyping_remove_typechecker_stack",
                                          switch=sw, has_cause=out.get("cause")))
        npos = [n for n, a in f["params"]].index(blamed) if (blamed in [n for n, a in f["params"]]) else -1
        self.feats.add(f"{stage}|{f['tc']}|{npos}|{len(obs_ax)}+{len(obs_pt)}|{self.scn['family']['perturb']}|{self.scn.get('extra')}")
        self.stats.inc("errors_checked")
        self.stats.inc("stage:" + stage)


def _family_model_with_extra(scn):
    """C02's declarative model, extended by the extra PyTree / Union parameter: the tree contributes one
    item per leaf (structure name T is new in every call, so it never constrains); the union contributes the
    alternative selected by the value's rank (alternatives are mutually exclusive by rank)."""
    fam = scn["family"]
    pitems = []
    for p, v in zip(fam["params"], fam["vals"][:-1]):
        pitems.append(({"atype": p["atype"], "dtype": p["dtype"], "dims": dims_text(p["toks"])}, v))
    ritem = ({"atype": fam["ret"]["atype"], "dtype": fam["ret"]["dtype"], "dims": dims_text(fam["ret"]["toks"])}, fam["vals"][-1])
    reject = False
    if scn.get("extra") == "tree":
        for sh in scn["extra_leaves"]:
            pitems.append(({"atype": "np", "dtype": "Float", "dims": "a"}, {"t": "np", "s": sh, "d": "float32"}))
    elif scn.get("extra") == "union":
        sh = scn["extra_union_shape"]
        if len(sh) == 2:
            pitems.append(({"atype": "np", "dtype": "Float", "dims": "c b"}, {"t": "np", "s": sh, "d": "float32"}))
        elif len(sh) == 1:
            pitems.append(({"atype": "np", "dtype": "Float", "dims": "c"}, {"t": "np", "s": sh, "d": "float32"}))
        else:
            reject = True
    args = {"k": fam["k"]}
    full, ponly = model.call_model(pitems, ritem, args), model.call_model(pitems, None, args)
    if reject:
        full, ponly = (full - {"accept"}) | {"reject"}, (ponly - {"accept"}) | {"reject"}
    return full, ponly


def _is_int(v):
    try:
        int(v)
        return True
    except ValueError:
        return False


def execute(scn):
    stats = Stats()
    obs = Observer(scn, stats)
    old = jaxtyping.config.jaxtyping_remove_typechecker_stack
    jaxtyping.config.update("jaxtyping_remove_typechecker_stack", bool(scn.get("stack_switch")))
    try:
        plan = {(f["site"], f["k"]): f["exc"] for f in scn.get("faults", [])}
        interp, runs, sc, states = ctxsim.run_threads(scn, scn["threads"], {"kind": "solo"}, rng(scn["seed"], "s"),
                                                      observer=obs, yield_on_seams=False, plans=[plan])
    finally:
        jaxtyping.config.update("jaxtyping_remove_typechecker_stack", old)
    stats.inc("runs")
    for site, n, exc in states[0].fired:
        stats.inc(f"fault_fired:{site}:{exc}")
    stats.inc("switch:" + ("on" if scn.get("stack_switch") else "off"))
    fam = scn["family"]
    # 'iff violated' on pure array families (shared with C02)
    viols = list(obs.viol)
    if not scn.get("misuse"):
        full, ponly = _family_model_with_extra(scn)
        for sib, t in zip(scn["siblings"], [t for t in runs[0].transcript if t[1] == "call" and "." not in t[0]]):
            if t[0] in obs.faulted or scn.get("recursion"):
                continue
            v = c02.verdict(t[2])
            allowed = full if sib["with_ret"] else ponly
            if v not in allowed and len(viols) < 4:
                viols.append(violation(PID, "iff-violated", {"sibling": sib, "model_allows": sorted(allowed), "implementation": t[2],
                                                             "signature": [dims_text(p["toks"]) for p in fam["params"]],
                                                             "values": fam["vals"]},
                                       sig={"oracle": "iff-violated", "got": v}))
    return {"violations": viols, "stats": stats.c, "features": sorted(obs.feats),
            "digest": digest([r.transcript for r in runs]),
            "sample": {"signature": [dims_text(p["toks"]) for p in fam["params"]], "return": dims_text(fam["ret"]["toks"]),
                       "shapes": [v["s"] for v in fam["vals"]], "mode": scn["mode"], "extra": scn.get("extra"),
                       "misuse": scn.get("misuse"), "errors_checked": stats.get("errors_checked")}}
