"""C16 -- '?' axes are per-leaf-position axes of exactly one structured PyTree.

Histories with two or three PyTree checks on the same structure name whose leaf type contains '?n' /
'*?v' alone, beside another annotation in a tuple or an exclusive union, or inside a structure-less
PyTree[...]; per-leaf sizes agree / disagree at exactly one position; plain axes named 'n' are bound
before, between and after; the same array OBJECT may sit at several positions of a tree; misuse forms
('?' with no structured tree around it, '?' beneath two structured trees).  Oracle: reference model with
bindings keyed by (structure string, leaf index, name)."""

from .. import ctxsim
from ..core import Stats, digest, rng
from ..gen import Gen, assign_ids
from . import c08
from .treebase import TreeObserver

PID = "C16"
LEVEL = "exploration"
ENGINE = "ctxsim"
REACH = ['history_shadow_judged', 'tree:accept', 'tree:reject', 'tree:AnnotationError', 'leafkind:nest', 'leafkind:tup', 'leafkind:uni']  # counters (prefixes) that a healthy batch makes non-zero; gaps are reported in the evidence
BUDGET = {"quick": 35, "thorough": 600}
RULE = (
    "Seeded histories in jaxtyped('context') blocks: 2-4 checks of trees sharing one skeleton against "
    "PyTree[L,'T'] with L in {Float['?n'], Float['?n a'], Float['*?v'], Float['#?n'], tuple[Float['?n'],int], "
    "Union[Float['?n'],str], PyTree[Float['?n']], PyTree[PyTree[Float['?n']]]}, sizes per leaf position equal across "
    "trees except at one seeded position (or nowhere), same array object at two positions in ~30% of trees, plain "
    "'n' / 'v' axes checked before / between / after, plus misuse forms.  Oracle: reference model (same position "
    "must agree, different positions independent, plain n in a different namespace, misuse => AnnotationError, '?' "
    "under exactly one structured PyTree always usable).  distinct_nontrivial = distinct (leaf-type class, #leaves, "
    "disagreeing position, plain-axis placement, misuse kind, outcome) tuples."
)
ASSUMPTIONS = ["reference model trusted; labels are compared through the white-box memo keys '(Leaf i in structure T) name'"]
COMPONENTS = {"real": ["jaxtyping PyTree/array checks, _storage treepath memo", "jax.tree_util"], "stub": []}


def gen(seed, tier="quick"):
    r = rng(seed, "program")
    g = Gen(r, names=("a",), sizes=(1, 2, 3, 4), allow_sym=False, max_tokens=1)

    def arr(dims):
        spec = {"k": "arr", "dtype": "Float", "atype": "np", "dims": dims, "toks": []}
        if r.random() < 0.25:
            # nested spelling Outer[Inner[T, <tail>], <head>]: the '?' may then sit in the inner annotation only
            spec["split"] = [r.randrange(0, len(dims.split(" ")) + 1), r.choice(("shaped", "same"))]
        return g.add_ann(spec)

    q1, q2, q3, q4, q5 = arr("?n"), arr("?n a"), arr("*?v"), arr("#?n"), arr("#*?v")
    plain_n, plain_v = arr("n"), arr("*v")
    kinds = {"q1": q1, "q2": q2, "q3": q3, "q4": q4, "q5": q5,
             "tup": g.add_ann({"k": "tuple", "items": [q1, "int"]}),
             "uni": g.add_ann({"k": "union", "items": [q1, "str"]}),
             "nest": g.add_ann({"k": "tree", "leaf": q1, "struct": None}),
             # a structure-less PyTree that does NOT match, tried before the '?' alternative for the same leaf
             "uni_nest": g.add_ann({"k": "union", "items": [g.add_ann({"k": "tree", "leaf": "str", "struct": None}), q1]}),
             "nest2": g.add_ann({"k": "tree", "leaf": g.add_ann({"k": "tree", "leaf": q1, "struct": None}), "struct": None})}
    lk = r.choice(sorted(kinds))
    L = kinds[lk]
    a = r.choice((2, 3))

    def leafval(size):
        base = {"q1": [size], "q4": [size], "q2": [size, a], "q3": [size, 2] if size % 2 else [size],
                "q5": [size, 3] if size % 2 else [1, 3]}.get(lk, [size])
        v = {"t": "np", "s": base, "d": "float32"}
        if lk == "tup":
            return {"t": "tuple", "c": [v, {"t": "int", "v": 1}]}
        return v

    def block():
        skel = g.tree_shape(r.randrange(0, 4), 6, node_ok=True)
        from ..gen import count_leaves

        nl = count_leaves(skel)
        sizes = [r.choice((1, 2, 3, 4)) for _ in range(nl)]
        struct = r.choice(("T", "T", "S"))
        ta = g.add_ann({"k": "tree", "leaf": L, "struct": struct})
        ops = []

        def plain():
            if r.random() < 0.5:
                ops.append({"op": "arr", "ann": plain_n, "val": {"t": "np", "s": [r.choice((1, 2, 3, 4, 5))], "d": "float32"}, "_rel": "plain-n"})
            if r.random() < 0.2:
                ops.append({"op": "arr", "ann": plain_v, "val": {"t": "np", "s": [r.choice((1, 2)), 2], "d": "float32"}, "_rel": "plain-v"})

        plain()
        ntrees = r.randrange(2, 5)
        for ti in range(ntrees):
            sz = list(sizes)
            dis = -1
            if ti > 0 and nl and r.random() < 0.5:
                dis = r.randrange(nl)
                sz[dis] = sizes[dis] + 1
            share = nl >= 2 and r.random() < 0.3
            i0, i1 = (r.sample(range(nl), 2) if share else (-1, -1))
            if share:
                sz[i1] = sz[i0]

            def lv(i):
                v = leafval(sz[i])
                if lk == "uni" and r.random() < 0.2:
                    return {"t": "str", "v": "s"}
                if share and i in (i0, i1):
                    return {"t": "shared", "key": f"k{ti}", "v": leafval(sz[i0])}
                return v

            ops.append({"op": "tree", "ann": ta, "val": g.fill_tree(skel, lv), "_rel": f"tree{min(ti, 2)}|dis={'none' if dis < 0 else min(dis, 3)}|nl={min(nl, 4)}"})
            plain()
            if r.random() < 0.15:
                ops.append({"op": "obs"})
        # misuse forms
        x = r.random()
        if x < 0.15:
            ops.append({"op": "arr", "ann": q1, "val": {"t": "np", "s": [2], "d": "float32"}, "_rel": "misuse-outside"})
        elif x < 0.3:
            ops.append({"op": "tree", "ann": g.add_ann({"k": "tree", "leaf": q1, "struct": None}),
                        "val": {"t": "tuple", "c": [{"t": "np", "s": [2], "d": "float32"}]}, "_rel": "misuse-structureless"})
        elif x < 0.45:
            inner = g.add_ann({"k": "tree", "leaf": q1, "struct": "S" if struct == "T" else "T"})
            ops.append({"op": "tree", "ann": g.add_ann({"k": "tree", "leaf": inner, "struct": "U"}),
                        "val": {"t": "tuple", "c": [{"t": "np", "s": [2], "d": "float32"}, {"t": "np", "s": [3], "d": "float32"}]},
                        "_rel": "misuse-two-structured"})
        return {"op": "ctx", "body": ops, "exit": "ret"}

    prog = [block() for _ in range(r.randrange(1, 3))]
    return {"engine": ENGINE, "property": PID, "seed": seed, "anns": g.anns, "fns": {}, "threads": assign_ids([prog]), "leafkind": lk}


def _feature(obs, op, spec, snap0, got):
    return f"{obs.scn.get('leafkind')}|{op.get('_rel', op['op'])}|{got}"


def execute(scn):
    stats = Stats()
    obs = TreeObserver(PID, scn, stats, _feature)
    interp, runs, sc, states = ctxsim.run_threads(scn, scn["threads"], {"kind": "solo"}, rng(scn["seed"], "s"), observer=obs,
                                                  yield_on_seams=False)
    stats.inc("runs")
    stats.inc("leafkind:" + scn.get("leafkind", "?"))
    first = [o for o in c08._flat(scn["threads"][0]) if o["op"] == "tree"][:3]
    return {"violations": obs.viol, "stats": stats.c, "features": sorted(obs.feats), "digest": digest([r_.transcript for r_ in runs]),
            "sample": {"leafkind": scn.get("leafkind"), "checks": [[obs.describe(o["ann"]), o.get("_rel"), o["val"]] for o in first][:2]}}
