"""C18 -- cached bytecode never makes a module run with the wrong instrumentation.

Durability property: the only state surviving a (simulated) process is the __pycache__ directory.
Histories of 2-6 runs over one cache directory; each run chooses hooked names, a checker, an import
order (with imports nested inside hooked modules and inside functions), may follow source edits
(same / different length, clock forward, backward, far ahead), may reload in-process, may suffer
disk faults (failed / lost / torn bytecode writes, deleted cache files) or crash at a disk event.
Oracle per loaded module: instrumented iff the CURRENT hooks cover it, by the CURRENT checker, and the
code that ran is the CURRENT source's."""

from .. import hooksim
from ..core import H, Stats, digest, rng, violation
from ..hooksim import MODULES, TOPS

PID = "C18"
LEVEL = "exploration"
ENGINE = "hooksim"
CHUNK = 16
REACH = ['runs_with_pycache_prefix', 'loaded_instrumented', 'loaded_plain', 'fault:crash', 'fault:pyc_write_fail', 'fault:pyc_lost_write', 'fault:pyc_torn_write', 'fault:pyc_deleted', 'fault:source_edit_landed_during_import', 'par:runs_with_preemption', 'edit:clock_back', 'op:reload', 'runs_with_dont_write_bytecode', 'import_failed_while_a_source_is_broken', 'pyc_tagged_seen', 'histories_cross_validated_with_real_processes']  # counters (prefixes) that a healthy batch makes non-zero; gaps are reported in the evidence
BUDGET = {"quick": 40, "thorough": 600}
RULE = (
    "Seeded histories of 2-6 simulated process runs over one real cache directory (real importlib, real "
    "jaxtyping hook, bytecode writing ON); per run: 0-3 hooked names out of a forest with look-alike names, "
    "checker a/b/None, 2-7 imports incl. nested and function-level imports, optional mid-run uninstall, "
    "edits with simulated mtime clock (forward/backward/far), in-process reload, module bodies that raise, "
    "disk faults (ENOSPC, lost write, torn write, deleted pyc, crash at k-th write), source edits landing while the "
    "import that read the old text is still in flight.  Oracle: every loaded "
    "module is instrumented iff a currently active hook covers it, with that hook's checker, running the "
    "current source version.  distinct_nontrivial = distinct (hook configuration sequence, cache state "
    "digest) pairs, where the cache state is the multiset of tagged/plain pyc names present before each run."
)
ASSUMPTIONS = [
    "process restart is simulated in-process (sys.modules, sys.meta_path, Typechecker.lookup, importer caches purged); "
    "the thorough tier cross-validates a sample with real subprocesses",
    "an edit that preserves both size and mtime is excluded (CPython itself cannot detect it)",
    "under a torn pyc write an import may fail (CPython raises on truncated marshal data even for plain modules); wrong code is never allowed",
]
COMPONENTS = {"real": ["jaxtyping._import_hook (finder, loader, transformer, Typechecker)", "CPython importlib incl. bytecode read/validate/write",
                       "file system (temp dir)"],
              "stub": ["process restart (soft)", "spy typecheckers sim.hsim_spy.a/b", "clock (os.utime from a simulated clock)"]}
HOOKABLE = ["foo", "foo.sub", "foo.util", "foobar", "foo_bar", "fo", "bar", "bar.baz", "foox", "foox.sub", "chk", "chk.core", "nsp", "nsp.inner"]


def worker_init():
    hooksim.worker_init()


def gen_forest(r):
    order = list(TOPS)
    r.shuffle(order)
    rank = {t: i for i, t in enumerate(order)}
    imports, lazy = {}, {}
    for m in MODULES:
        cands = [x for x in MODULES if rank[x.split(".")[0]] > rank[m.split(".")[0]]]
        if cands and r.random() < 0.45:
            imports[m] = sorted(set(r.choice(cands) for _ in range(r.randrange(1, 3))))
        if cands and r.random() < 0.3:
            lazy[m] = r.choice(cands)
    return {"imports": imports, "lazy": lazy}


def closure(forest, m):
    """Modules whose import locks an `import m` may take: parents, static imports (transitively) and their parents."""
    out, todo = set(), [m]
    while todo:
        x = todo.pop()
        parts = x.split(".")
        for k in range(1, len(parts) + 1):
            y = ".".join(parts[:k])
            if y not in out:
                out.add(y)
                todo.extend(forest["imports"].get(y, []))
                if y == "chk":
                    todo.append("chk.core")
    return out


def gen_par(r, forest, seed, tag):
    """2-3 threads importing concurrently, with pairwise disjoint import closures (so no thread ever waits for a module
    lock held by a parked thread)."""
    from ..sched import draw_policy_spec

    n = r.choice((2, 2, 3))
    threads, used = [], set()
    for _ in range(n):
        targets, mine = [], set()
        for _ in range(r.randrange(1, 3)):
            m = r.choice(MODULES)
            c = closure(forest, m)
            if not (c & used):
                targets.append(m)
                mine |= c
        if targets:
            threads.append(targets)
            used |= mine
    if len(threads) < 2:
        return None
    spec = draw_policy_spec(r)
    if spec["kind"] in ("window", "rendezvous"):  # those anchors belong to the checking code, not to the import hook
        # PCT (few priority change points, otherwise run-to-completion) reaches "A enters, B enters, A runs to the end, B goes
        # on" orders that per-line coin flips practically never produce across a few hundred traced lines
        x = r.random()
        spec = ({"kind": "hot", "p_hot": r.choice((0.3, 0.5)), "p": r.choice((0.0, 0.003, 0.01))} if x < 0.45 else
                {"kind": "pct", "d": r.choice((1, 2, 3))} if x < 0.75 else {"kind": "random", "p": r.choice((0.02, 0.05, 0.1, 0.3))})
    return {"op": "par", "threads": threads, "sched": spec, "sched_seed": H(seed, "par", tag)}


def gen(seed, tier="quick"):
    r = rng(seed, "program")
    forest = gen_forest(r)
    runs = []
    nruns = r.randrange(2, 7)
    hid = 0
    for ri in range(nruns):
        ops = []
        nh = r.choice((0, 1, 1, 1, 2))
        ids = []
        for _ in range(nh):
            hid += 1
            names = sorted(set(r.choice(HOOKABLE) for _ in range(r.randrange(1, 4))))
            ops.append({"op": "install", "id": f"h{hid}", "names": names, "checker": r.choice(("a", "a", "b", "none", "ca", "ca", "cb")),
                        "as_str": r.random() < 0.3, "tuple_form": r.random() < 0.1})
            ids.append(f"h{hid}")
        body = []
        for _ in range(r.randrange(2, 8)):
            x = r.random()
            m = r.choice(MODULES)
            if x < 0.7:
                body.append({"op": "import", "module": m})
                if r.random() < 0.12:
                    # a source edit that lands while this import is in flight (right after the source bytes were read)
                    body[-1]["edit_during"] = {"module": r.choice([m] + forest["imports"].get(m, [])), "same_len": r.random() < 0.5,
                                               "grow": r.randrange(1, 4), "clock": r.choice((2, 2, 3, 10, -100, 10**7))}
            elif x < 0.85:
                body.append({"op": "call_lazy", "module": m})
            elif ids and x < 0.92:
                body.append({"op": "uninstall", "id": r.choice(ids)})
            else:
                body.append({"op": "edit", "module": m, "same_len": r.random() < 0.5, "grow": r.randrange(1, 4),
                             "clock": r.choice((2, 2, 3, 10, -100, 10**7))})
                body.append({"op": "reload", "module": m})
        if r.random() < 0.25 and not any(o["checker"] in ("ca", "cb") for o in ops):
            par = gen_par(r, forest, seed, ri)
            if par is not None:
                body.insert(r.choice((0, 0, 1)), par)
        ops += body
        if r.random() < 0.12:
            bm = r.choice(MODULES)
            pos = r.randrange(0, len(ops) + 1)
            ops.insert(pos, {"op": "edit", "module": bm, "same_len": False, "grow": 1, "clock": 2, "broken": True})
            ops.insert(min(len(ops), pos + 1 + r.randrange(0, 3)), {"op": "import", "module": bm})
        # edits between runs
        for _ in range(r.choice((0, 0, 1, 2))):
            ops.append({"op": "edit", "module": r.choice(MODULES), "same_len": r.random() < 0.5, "grow": r.randrange(1, 4),
                        "clock": r.choice((2, 2, 5, -100, -2, 10**7))})
        run = {"ops": ops}
        if r.random() < 0.15:
            run["bytecode"] = False  # this process runs with sys.dont_write_bytecode: caches are still READ
        if r.random() < 0.12:
            run["disable"] = True  # JAXTYPING_DISABLE=1 in this process: modules are still instrumented, checks are off
        if r.random() < 0.1:
            run["env"] = {"SOURCE_DATE_EPOCH": "315532800"}  # reproducible-build environments
        if r.random() < 0.08:
            run["pycache_prefix"] = True
        fr = r.random()
        if fr < 0.12:
            run["faults"] = [{"site": "module.body", "k": r.randrange(1, 6), "exc": r.choice(("RuntimeError", "ValueError", "KeyboardInterrupt"))}]
        elif fr < 0.3:
            kind = r.choice(("write_fail", "lose", "tear"))
            run["disk"] = {kind: sorted(set(r.randrange(1, 8) for _ in range(r.randrange(1, 3))))}
        elif fr < 0.38:
            run["crash_at"] = r.randrange(1, 8)
        elif fr < 0.45:
            run["ops"].append({"op": "delete_pyc", "index": r.randrange(0, 50)})
        runs.append(run)
    return {"engine": ENGINE, "property": PID, "seed": seed, "forest": forest, "runs": runs, "bytecode": True,
            "real_process": H(seed, "real") % (40 if tier == "thorough" else 400) == 0}


def _sig(p):
    w = p["what"]
    cls = ("stale-code" if w.startswith("stale") else "not-instrumented" if w.startswith("NOT") else
           "wrongly-instrumented" if w.startswith("instrumented although") else "wrong-checker" if "checker" in w else
           "import-failed" if "failed" in w else "leak" if "patched" in w or "meta_path" in w else "other")
    return {"oracle": "run-observation", "class": cls}


def execute(scn):
    stats = Stats()
    probs, obs_soft = hooksim.run_history(scn, stats)
    if scn.get("real_process"):
        # cross-validation of the simulated process boundary: the same history, every run in a fresh interpreter
        st2 = Stats()
        probs_real, obs_real = hooksim.run_history(scn, st2, real_process=True)
        stats.inc("histories_cross_validated_with_real_processes")
        stats.inc("real_process_runs", st2.get("real_process_runs"))
        def canon_obs(obs):
            # inside a concurrent-import section the ORDER of the loads depends on the schedule, and the schedule on how warm the
            # process is (a fresh interpreter executes more lines of the hook on first use): such runs are compared as multisets
            return [sorted(map(repr, o)) if any(op_["op"] == "par" for op_ in run_["ops"]) else o
                    for o, run_ in zip(obs, scn["runs"])]

        if not probs and not probs_real and canon_obs(obs_real) != canon_obs(obs_soft):
            from ..core import HarnessError

            raise HarnessError(f"soft restart diverges from real processes (seed {scn['seed']}): soft={obs_soft} real={obs_real}")
        probs = probs + [dict(p, mode="real-process") for p in probs_real]
    stats.inc("runs")
    stats.inc("evaluations", stats.get("modules_loaded"))
    viols = []
    seen = set()
    for p in probs:
        s = _sig(p)
        key = repr(sorted(s.items()))
        if key in seen:
            continue
        seen.add(key)
        viols.append(violation(PID, "run-observation", p, sig=s))
    conf = [[(o["names"], o["checker"]) for o in run["ops"] if o["op"] == "install"] for run in scn["runs"]]
    feat = digest([conf, [sorted(r.get("disk", {}).items()) for r in scn["runs"]], [r.get("crash_at") for r in scn["runs"]],
                   [[o["module"] for o in r["ops"] if o["op"] == "edit"] for r in scn["runs"]]])
    return {"violations": viols, "stats": stats.c, "features": [feat], "digest": digest([probs, stats.c.get("modules_loaded")]),
            "sample": {"runs": [{"hooks": c, "n_ops": len(r["ops"]), "faults": r.get("faults"), "disk": r.get("disk"),
                                 "crash_at": r.get("crash_at")} for c, r in zip(conf, scn["runs"])][:4],
                       "forest_imports": scn["forest"]["imports"]}}
