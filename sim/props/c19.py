"""C19 -- disabling checks makes decorated code behave exactly like plain code.

Histories over the process-wide switches: config.update('jaxtyping_disable', <spelling>) with every accepted
spelling (0/1/true/false in any case, booleans) and rejected ones, issued before decoration, between
decoration and call, between calls, DURING a call (from the body: the flag must have been read once, at
entry) and from ANOTHER THREAD (baton-scheduled, so the position of the toggle relative to the call's read of
the flag is decided by the seeded scheduler); typing.no_type_check below / above the decorator and applied to
an already-called wrapper; decorated callables of every kind and spelling, well- and ill-typed arguments.
Oracles: (model) the switch is a function of the accepted updates, rejected updates raise ValueError and
change nothing; (differential) while disabled a decorated call == the PLAIN TWIN (the object that was handed
to jaxtyped) on the same arguments: same outcome, body ran once, and the body observes the caller's context
(two contradictory manual isinstance checks are the detector); while enabled the call is checked and the body
sees a fresh context; (linearisation) under concurrent toggles every call equals its enabled or its disabled
version; (environment) a fresh interpreter with JAXTYPING_DISABLE=<spelling> starts with the matching switch
or fails to import with ValueError."""

import os
import subprocess
import sys

import jaxtyping

from .. import ctxsim, model, sched, seams
from ..core import HarnessError, Stats, canon, digest, rng, violation
from ..gen import Gen, assign_ids

PID = "C19"
LEVEL = "exploration"
ENGINE = "ctxsim"
MIN_THREADS = 1
CHUNK = 6
REACH = ['toggle:accepted', 'toggle:rejected', 'call:disabled', 'call:enabled', 'hookcall:disabled', 'hookcall:enabled', 'mode:concurrent', 'calls_overlapping_a_toggle', 'env_spellings']  # counters (prefixes) that a healthy batch makes non-zero; gaps are reported in the evidence
BUDGET = {"quick": 40, "thorough": 600}
RULE = (
    "Seeded histories of toggles (22 spellings, valid and invalid, both switches), lazy decorations, no_type_check "
    "markings and paired calls (decorated callable, then its plain twin, same arguments) of new-style / old-style / "
    "typechecker=None functions, methods, class/static methods and dataclasses under typeguard / beartype / minimal "
    "checker with consistent and inconsistent arguments and return values; bodies contain two contradictory manual "
    "checks and sometimes flip the switch; 35% of runs add a second baton-scheduled thread that only toggles.  "
    "Oracles: switch model, disabled == plain twin, enabled => checked + fresh context, linearisation, environment "
    "spellings in fresh interpreters (once per check invocation).  distinct_nontrivial = distinct (callable flavour, "
    "enabled-at-entry, how disabled, argument class, outcome) tuples + distinct hand-over digests of concurrent runs."
)
ASSUMPTIONS = ["'plain' is the object handed to jaxtyped: the bare function for new-style and typechecker=None, typechecker(fn) for the "
               "old double-decorator spelling (jaxtyping cannot disable a checker the user applied themselves)",
               "paired calls are issued at top level so that the plain twin's manual checks are stateless"]
COMPONENTS = {"real": ["jaxtyping config + decorator", "typeguard", "beartype", "CPython subprocesses for the environment route"],
              "stub": ["minimal checker"]}

VALID = [("0", False), ("1", True), ("true", True), ("false", False), ("TRUE", True), ("False", False), ("tRuE", True),
         ("FALSE", False), (True, True), (False, False)]
INVALID = ["yes", "no", "2", "", " 1", "on", "off", "None", "t", 1, 0, None, 2.0]
REJECT = ("TypeCheckError", "TypeError", "BeartypeCallHintParamViolation", "BeartypeCallHintReturnViolation")


_DIR = None


def worker_init():
    """Temp dir with two tiny annotated modules that the histories load through the import hook."""
    global _DIR
    import atexit
    import importlib
    import shutil
    import tempfile

    ctxsim.warm_up()
    sys.dont_write_bytecode = True
    from ..core import scratch_dir

    _DIR = scratch_dir("jtv_c19_")
    for name in ("c19mod_a", "c19mod_b"):
        with open(os.path.join(_DIR, name + ".py"), "w") as f:
            f.write("import numpy as np\nfrom jaxtyping import Float\n\ndef f(x: Float[np.ndarray, '3']):\n    return 1\n")
    sys.path.insert(0, _DIR)
    importlib.invalidate_caches()


def _norm(out):
    if isinstance(out, dict) and "exc" in out:
        stage = None
        if out["exc"] == "TypeCheckError":
            stage = "return" if "return value" in out.get("msg", "")[:80] else "parameters"
        msg = None
        if out["exc"] != "TypeCheckError":
            import re

            # exact behaviour: same exception text, with the callable's own (twin-specific) name masked
            msg = re.sub(r"\b[\w.]*[DP]\d+_\d+(\.m|\.__init__)?\(\)", "<callable>()", out.get("msg", ""))
            msg = re.sub(r"\b__init__\(\)", "<callable>()", msg)
        return {"exc": out["exc"], "stage": stage, "body_runs": out.get("body_runs"), "msg": msg}
    if isinstance(out, dict):
        return {"ret": True, "body_runs": out.get("body_runs")}
    return out


def gen(seed, tier="quick"):
    r = rng(seed, "program")
    g = Gen(r, names=("a", "b"), sizes=(1, 2, 3), allow_sym=False, max_tokens=2)
    Q = g.add_ann({"k": "arr", "dtype": "Float", "atype": "np", "dims": "q", "toks": [{"kind": "named", "name": "q"}]})
    arrs = []
    for _ in range(3):
        toks = [{"kind": "named", "name": r.choice(("a", "b")), "b": False, "q": False} for _ in range(r.randrange(1, 3))]
        arrs.append(g.arr_ann(atype="np", dtype="Float", toks=toks))
    fns = {}
    pairs = []
    for i in range(r.randrange(2, 5)):
        style = r.choice(("new", "new", "new", "old", "none"))
        kind = r.choice(("fn", "fn", "method", "cm_outer", "sm_outer", "dc")) if style == "new" else r.choice(("fn", "method"))
        params = [[f"x{j}", r.choice(arrs)] for j in range(r.randrange(1, 3))]
        ntc = None
        if style in ("new", "none") and kind in ("fn", "method") and r.random() < 0.25:
            ntc = r.choice(("above", "below"))
        if style in ("new", "none") and kind == "fn" and r.random() < 0.12:
            kind = "inject"
        spec = {"style": style, "tc": r.choice(("tg", "tg", "bt", "min")), "kind": kind, "params": params,
                "ret": r.choice(arrs) if kind != "dc" and r.random() < 0.6 else None, "ntc": ntc,
                "lazy": r.random() < 0.3}
        if kind == "inject":
            spec["inject"] = {"t": "np", "s": [2] * len(g.anns[params[0][1]]["toks"]), "d": "float32"}
            spec["ret"] = None
        fns[f"D{i}"] = spec
        fns[f"P{i}"] = dict(spec, style="tconly" if style == "old" else "plain", ntc=None, lazy=False)
        pairs.append(i)
    concurrent = r.random() < 0.35
    body = [{"op": "arr", "ann": Q, "val": {"t": "np", "s": [3], "d": "float32"}},
            {"op": "arr", "ann": Q, "val": {"t": "np", "s": [4], "d": "float32"}}]

    def call_pair(i, twin=True, flip=None):
        f = fns[f"D{i}"]
        pref = {"a": r.randrange(1, 4), "b": r.randrange(1, 4)}
        bad = r.random() < 0.45
        def exact(aid):
            return {"t": "np", "s": g.shape_for(g.anns[aid]["toks"], pref, p_bad=0.0, p_rank=0.0), "d": "float32"}

        args = [exact(a) for _, a in f["params"]]
        ret = exact(f["ret"]) if f.get("ret") else None
        argclass = "ok"
        if bad:
            if ret is not None and r.random() < 0.4:
                ret["s"] = [x + 1 for x in ret["s"]] + [1]
                argclass = "bad-ret"
            else:
                args[0]["s"] = args[0]["s"] + [1]
                argclass = "bad-param"
        extra = {}
        if f["kind"] == "inject":
            args[0] = {"t": "omit"}  # supplied by the callable itself
            argclass = "inject"
        elif r.random() < 0.1 and flip is None:
            # a call that does not bind: missing argument / one positional too many / unknown keyword
            how = r.choice(("missing", "extra-pos", "extra-kw"))
            if how == "missing":
                args[-1] = {"t": "omit"}
            elif how == "extra-pos":
                args.append({"t": "int", "v": 7})
            else:
                extra = {"extra_kw": ["zz"]}
            argclass = "arity"
        b = [dict(o) for o in body]
        if flip is not None:
            b.append({"op": "toggle", "item": "jaxtyping_disable", "value": flip, "_inbody": True})
        ops = [dict({"op": "call", "fn": f"D{i}", "args": args, "kw": r.choice((0, 2)), "body": b, "ret": ret, "exit": "ret",
                     "_argclass": argclass, "_flip": flip}, **extra)]
        if twin and flip is None:
            ops.append({"op": "call", "fn": f"P{i}", "_twin_of": True})
        return ops

    prog = []
    for i in pairs:
        if fns[f"D{i}"]["lazy"]:
            pass
    for _ in range(r.randrange(4, 12)):
        x = r.random()
        if x < 0.3 and not concurrent:
            if r.random() < 0.7:
                v = r.choice(VALID)[0]
            else:
                v = r.choice(INVALID)
            item = "jaxtyping_disable" if r.random() < 0.85 else r.choice(("jaxtyping_remove_typechecker_stack", "JAXTYPING_DISABLE", "nonsense_item"))
            prog.append({"op": "toggle", "item": item, "value": v})
        elif x < 0.4:
            i = r.choice(pairs)
            if fns[f"D{i}"]["lazy"]:
                prog.append({"op": "decorate", "fn": f"D{i}"})
        elif x < 0.47:
            i = r.choice(pairs)
            if fns[f"D{i}"]["style"] in ("new", "none") and fns[f"D{i}"]["kind"] == "fn":
                prog.append({"op": "mark_ntc", "fn": f"D{i}"})
        elif x < 0.53 and not concurrent:
            mname = r.choice(("c19mod_a", "c19mod_b"))
            prog.append({"op": "hookmod", "module": mname, "checker": r.choice(("typeguard.typechecked", "beartype.beartype"))})
            for _ in range(r.randrange(1, 3)):
                if r.random() < 0.5:
                    prog.append({"op": "toggle", "item": "jaxtyping_disable", "value": r.choice((True, False, "1", "0"))})
                prog.append({"op": "hookcall", "module": mname, "bad": r.random() < 0.6})
        elif x < 0.6 and not concurrent:
            i = r.choice(pairs)
            flip = r.choice((True, False))
            prog.extend(call_pair(i, twin=False, flip=flip))
            prog.append({"op": "toggle", "item": "jaxtyping_disable", "value": r.choice((True, False))})
        else:
            prog.extend(call_pair(r.choice(pairs), twin=not concurrent))
    threads = [prog]
    if concurrent:
        threads.append([{"op": "toggle", "item": "jaxtyping_disable", "value": r.choice((True, False, "1", "0"))}
                        for _ in range(r.randrange(1, 5))])
    return {"engine": ENGINE, "property": PID, "seed": seed, "anns": g.anns, "fns": fns, "threads": assign_ids(threads),
            "concurrent": concurrent, "sched": sched.draw_policy_spec(rng(seed, "swarm")) if concurrent else {"kind": "solo"}}


def _item_kind(item):
    il = item.lower() if isinstance(item, str) else None
    return "disable" if il == "jaxtyping_disable" else "stack" if il == "jaxtyping_remove_typechecker_stack" else None


def _parse(value):
    if isinstance(value, bool):
        return value
    if isinstance(value, str) and value.lower() in ("0", "false"):
        return False
    if isinstance(value, str) and value.lower() in ("1", "true"):
        return True
    return None


class Observer:
    """Single-thread oracle: switch model + disabled==plain twin + enabled => checked, fresh context."""

    def __init__(self, scn, stats):
        self.scn = scn
        self.stats = stats
        self.viol = []
        self.feats = set()
        self.switch = bool(jaxtyping.config.jaxtyping_disable)
        self.marked = set()
        self.entry = {}
        self.last_d = None

    def _v(self, oracle, detail, **sig):
        if len(self.viol) < 4:
            self.viol.append(violation(PID, oracle, detail, sig=dict(oracle=oracle, **sig)))

    def pre(self, interp, run, op, path):
        if op["op"] == "call":
            self.entry[path] = self.switch

    def post(self, interp, run, op, path, out):
        k = op["op"]
        if k == "toggle":
            self.stats.inc("evaluations")
            ik = _item_kind(op["item"])
            pv = _parse(op["value"])
            want_ok = ik is not None and pv is not None
            got_ok = out == "ok"
            self.stats.inc("toggle:" + ("accepted" if got_ok else "rejected"))
            if want_ok != got_ok or (not got_ok and out.get("exc") != "ValueError"):
                self._v("switch-model", {"path": path, "item": op["item"], "value": repr(op["value"]), "expected": "accepted" if want_ok else "ValueError",
                                         "got": out}, what="spelling")
            if got_ok and ik == "disable" and want_ok:
                self.switch = pv
            live = bool(jaxtyping.config.jaxtyping_disable)
            if live != self.switch:
                self._v("switch-model", {"path": path, "what": "jaxtyping_disable differs from the model after this update", "model": self.switch,
                                         "live": live, "update": [op["item"], repr(op["value"])]}, what="value")
                self.switch = live
            return
        if k == "hookcall":
            if out == "nomodule":
                return
            self.stats.inc("evaluations")
            self.stats.inc("hookcall:" + ("disabled" if self.switch else "enabled"))
            self.feats.add(f"hookcall|{self.switch}|{op.get('bad')}|{out.get('exc') if isinstance(out, dict) else out}")
            want_raise = bool(op.get("bad")) and not self.switch
            raised = isinstance(out, dict) and "exc" in out
            if want_raise != raised or (raised and out.get("exc") != "TypeCheckError"):
                self._v("hooked-module-follows-switch", {"what": "a function of a module loaded through the import hook does not follow "
                                                                 "the switch at call time", "disabled_now": self.switch, "ill_typed": op.get("bad"),
                                                         "got": _norm(out)}, disabled=self.switch, bad=bool(op.get("bad")))
            return
        if k == "mark_ntc":
            if out == "marked":
                self.marked.add(op["fn"])
            return
        if k == "decorate":
            self.marked.discard(op["fn"])  # a fresh wrapper: the marker was on the old one
            return
        if k != "call":
            return
        f = self.scn["fns"][op["fn"]]
        if op.get("_twin_of"):
            d = self.last_d
            self.last_d = None
            if d is None or (isinstance(out, dict) and "skipped" in out):
                return
            dpath, dout, dis_how = d
            mine = self._body_view(run, path)
            theirs = self._body_view(run, dpath)
            if _norm(out) != _norm(dout) or mine != theirs:
                self._v("disabled-equals-plain", {"decorated": self.scn["fns"][op["fn"].replace("P", "D")], "how_disabled": dis_how,
                                                  "decorated_outcome": _norm(dout), "plain_outcome": _norm(out),
                                                  "decorated_body_saw": theirs, "plain_body_saw": mine},
                        style=self.scn["fns"][op["fn"].replace("P", "D")]["style"], how=dis_how.split(":")[0],
                        diff="outcome" if _norm(out) != _norm(dout) else "body-context")
            return
        # decorated call
        self.stats.inc("evaluations")
        disabled_at_entry = self.entry.pop(path, self.switch)
        ntc = f.get("ntc") is not None or op["fn"] in self.marked
        how = "switch" if disabled_at_entry else ("no_type_check:" + (f.get("ntc") or "marked-later")) if ntc else None
        flavour = f"{f['style']}:{f['tc'] if f['style'] != 'none' else '-'}:{f['kind']}"
        self.feats.add(f"{flavour}|{how}|{op.get('_argclass')}|{_norm(out).get('exc') if isinstance(_norm(out), dict) else out}|flip={op.get('_flip')}")
        self.stats.inc("call:" + ("disabled" if how else "enabled"))
        if how is not None:
            if op.get("_flip") is None:
                self.last_d = (path, out, how)
            else:
                # disabled at entry, the body re-enabled checking: this call must still be unchecked
                if isinstance(out, dict) and out.get("exc") in REJECT and f["style"] != "old":
                    self._v("flag-read-once", {"what": "call entered while disabled was checked after its body re-enabled checking",
                                               "got": _norm(out), "flavour": flavour}, style=f["style"], dir="disabled-at-entry")
            return
        self.last_d = None
        if op.get("_argclass") in ("arity", "inject"):
            # checking enabled and the argument list does not bind to the advertised signature: only "no silent success with a
            # skipped body" is demanded (which TypeError text is shown is not part of the property)
            self.stats.inc("call:enabled-nonbinding")
            return
        # enabled: checked, fresh context
        view = self._body_view(run, path)
        got_exc = out.get("exc") if isinstance(out, dict) else None
        checked = f["style"] in ("new", "old")
        pm = self._param_ok(f, op)
        if checked and not pm:
            if got_exc not in REJECT or out.get("body_runs"):
                self._v("enabled-is-checked", {"what": "ill-typed call accepted while checking is enabled", "got": _norm(out), "flavour": flavour,
                                               "args": op["args"]}, style=f["style"], arg="bad-param")
            return
        if got_exc is None or out.get("body_runs"):
            if view[:2] != [True, False]:
                self._v("enabled-fresh-context", {"what": "body of an enabled decorated call did not get its own context "
                                                          "(two contradictory manual checks must give True, False)", "body_saw": view,
                                                  "flavour": flavour}, style=f["style"])
        if checked and op.get("_argclass") == "bad-ret" and f["kind"] != "dc":
            if got_exc not in REJECT:
                self._v("enabled-is-checked" if op.get("_flip") is None else "flag-read-once",
                        {"what": "ill-typed return value accepted while checking was enabled at entry", "got": _norm(out), "flavour": flavour,
                         "flip_in_body": op.get("_flip")}, style=f["style"], arg="bad-ret", dir="enabled-at-entry")
        elif op.get("_argclass") == "ok" and got_exc is not None:
            self._v("enabled-is-checked", {"what": "well-typed call raised", "got": out, "flavour": flavour}, style=f["style"], arg="ok")

    def _param_ok(self, f, op):
        ctx = model.Ctx()
        for (name, aref), val in zip(f["params"], op["args"]):
            o, p = model.match_array(self.scn["anns"][aref], val, ctx)
            if p is None:
                return False
            ctx = p
        return True

    def _body_view(self, run, path):
        pre = path + "."
        return [t[2] for t in run.transcript if t[0].startswith(pre) and t[1] in ("arr", "obs")]


def _solo_outcomes(scn, value):
    """Thread 0's program with the switch pinned to <value>: per call path -> normalised outcome + body view."""
    jaxtyping.config.update("jaxtyping_disable", value)
    # the switch is also pinned from INSIDE the simulated thread: the reference versions must not depend on the switch
    # being process-wide (which is part of what is being checked)
    interp, runs, sc, _ = ctxsim.run_threads(scn, [scn["threads"][0]], {"kind": "solo"}, rng(scn["seed"], "x"), yield_on_seams=False,
                                             thread_init=lambda i: jaxtyping.config.update("jaxtyping_disable", value))
    out = {}
    tr = runs[0].transcript
    for p, k, o in tr:
        if k == "call":
            out[p] = canon([_norm(o), [t[2] for t in tr if t[0].startswith(p + ".") and t[1] in ("arr", "obs")]])
    return out


def execute(scn):
    stats = Stats()
    old = (jaxtyping.config.jaxtyping_disable, jaxtyping.config.jaxtyping_remove_typechecker_stack)
    viols, feats = [], set()
    try:
        jaxtyping.config.update("jaxtyping_disable", False)
        if not scn.get("concurrent"):
            obs = Observer(scn, stats)
            interp, runs, sc, _ = ctxsim.run_threads(scn, scn["threads"], {"kind": "solo"}, rng(scn["seed"], "s"), observer=obs,
                                                     yield_on_seams=False)
            viols, feats = obs.viol, obs.feats
            dig = digest([r_.transcript for r_ in runs])
            sample = {"mode": "sequential", "ops": [[o["op"], o.get("fn") or o.get("value")] for o in scn["threads"][0]][:10]}
        else:
            en = _solo_outcomes(scn, False)
            ctxsim.clear_caches()
            di = _solo_outcomes(scn, True)
            ctxsim.clear_caches()
            jaxtyping.config.update("jaxtyping_disable", False)
            interp, runs, sc, _ = ctxsim.run_threads(dict(scn, _expected_yields=3000), scn["threads"], scn["sched"], rng(scn["seed"], "schedule"))
            tr = runs[0].transcript
            # toggles of the other thread with their position in the simulator's global event order
            togs = []
            for (p1, k1, o1), op1 in zip(runs[1].transcript, scn["threads"][1]):
                if k1 == "toggle" and o1 == "ok" and _item_kind(op1["item"]) == "disable":
                    t0, t1 = runs[1].clocks[p1]
                    togs.append((t0, t1, _parse(op1["value"])))
            for p, k, o in tr:
                if k != "call":
                    continue
                stats.inc("evaluations")
                c0, c1 = runs[0].clocks[p]
                before = [t for t in togs if t[1] < c0]
                cands = {before[-1][2] if before else False} | {t[2] for t in togs if not (t[1] < c0 or t[0] > c1)}
                got = canon([_norm(o), [t[2] for t in tr if t[0].startswith(p + ".") and t[1] in ("arr", "obs")]])
                allowed = {(di if c else en).get(p) for c in cands}
                which = "enabled" if got == en.get(p) else "disabled" if got == di.get(p) else None
                stats.inc("linearised:" + str(which))
                stats.inc("calls_overlapping_a_toggle" if len(cands) > 1 else "calls_after_toggles")
                if got not in allowed:
                    op = _find(scn["threads"][0], p)
                    viols.append(violation(PID, "linearisation", {
                        "path": p, "fn": scn["fns"][op["fn"]] if op else None, "got": got, "enabled_version": en.get(p),
                        "disabled_version": di.get(p),
                        "switch_values_consistent_with_the_global_order": sorted(cands),
                        "toggles_(begin,end,value)": togs, "call_(begin,end)": [c0, c1]},
                        sig={"oracle": "linearisation", "kind": "neither" if which is None else "real-time-order"}))
                    break
            hand = [h for h in sc.handovers if h[1] != "fin"]
            if hand:
                feats.add("sched:" + digest([[h[0], h[2], h[3]] for h in sc.handovers]))
            stats.inc("handovers", len(hand))
            stats.inc("yield_points", sc.total_yields)
            dig = digest([[r_.transcript for r_ in runs], sc.explicit_schedule()])
            sample = {"mode": "concurrent", "strategy": scn["sched"], "handovers": len(hand), "toggles_in_other_thread": len(scn["threads"][1])}
    finally:
        jaxtyping.config.update("jaxtyping_disable", old[0])
        jaxtyping.config.update("jaxtyping_remove_typechecker_stack", old[1])
    stats.inc("runs")
    stats.inc("mode:" + ("concurrent" if scn.get("concurrent") else "sequential"))
    return {"violations": viols, "stats": stats.c, "features": sorted(feats), "digest": dig, "sample": sample}


def _find(ops, path):
    cur = None
    lst = ops
    for part in path.split("."):
        try:
            cur = lst[int(part)]
        except (ValueError, IndexError):
            return None
        lst = cur.get("body", [])
    return cur


# ------------------------------------------------------------------------------------------
# environment route: once per check invocation, real subprocesses

ENV_SPELLINGS = ["0", "1", "true", "false", "TRUE", "False", "tRuE", "yes", "no", "2", "", " 1", "on", "None", "t", "00", "1 ", "FALSE"]


def pre_batch(tier):
    """Returns (violations, stats dict).  Each spelling: fresh interpreter, import jaxtyping, print the switch."""
    import concurrent.futures as cf

    # a process that STARTS with the variable set must still follow later config.update calls, in both directions, without
    # re-decoration: print the switch, then (ill-typed call, flip) three times
    code = (
        "import jaxtyping, numpy as np, typeguard\n"
        "from jaxtyping import Float, jaxtyped\n"
        "print('SWITCH', jaxtyping.config.jaxtyping_disable)\n"
        "@jaxtyped(typechecker=typeguard.typechecked)\n"
        "def f(x: Float[np.ndarray, '3']):\n    return 1\n"
        "for step in range(3):\n"
        "    try:\n        f(np.zeros(4)); r = 'accepted'\n"
        "    except Exception as e:\n        r = type(e).__name__\n"
        "    print('STEP', step, jaxtyping.config.jaxtyping_disable, r)\n"
        "    jaxtyping.config.update('jaxtyping_disable', not jaxtyping.config.jaxtyping_disable)\n"
    )

    def one(item):
        var, sp = item
        env = dict(os.environ)
        env.pop("JAXTYPING_DISABLE", None)
        env.pop("JAXTYPING_REMOVE_TYPECHECKER_STACK", None)
        env[var] = sp
        p = subprocess.run([sys.executable, "-c", code], env=env, capture_output=True, text=True, timeout=120)
        return var, sp, p.returncode, p.stdout, p.stderr[-400:]

    viols, st = [], {}
    items = [("JAXTYPING_DISABLE", sp) for sp in ENV_SPELLINGS] + [("JAXTYPING_REMOVE_TYPECHECKER_STACK", sp) for sp in ("1", "false", "TRUE", "maybe", "")]
    with cf.ThreadPoolExecutor(8) as ex:
        for var, sp, rc, out, err in ex.map(one, items):
            want = _parse(sp)
            st["env_spellings"] = st.get("env_spellings", 0) + 1
            problem = None
            if want is None:
                if not (rc != 0 and "ValueError" in err):
                    problem = "ValueError at import expected"
            else:
                start = want if var == "JAXTYPING_DISABLE" else False
                if rc != 0 or f"SWITCH {start}" not in out:
                    problem = f"switch should read {start} after import"
                else:
                    # the three steps alternate the switch, and every ill-typed call follows the CURRENT value
                    cur = start
                    for step in range(3):
                        exp = f"STEP {step} {cur} " + ("accepted" if cur else "TypeCheckError")
                        if exp not in out:
                            problem = f"after the process started with {var}={sp!r}: expected {exp!r} (config.update must take effect in both directions)"
                            break
                        cur = not cur
                    st["env_update_steps"] = st.get("env_update_steps", 0) + 3
            if problem:
                viols.append(violation(PID, "environment", {var: sp, "expected": problem, "returncode": rc, "stdout": out[-300:], "stderr": err},
                                       sig={"oracle": "environment", "variable": var, "spelling": sp}))
    return viols, st
