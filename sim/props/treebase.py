"""Shared machinery of the PyTree checks (C08, C09, C16): observer that refines every PyTree / array
check against the reference tree model from the OBSERVED pre-state, and value generators."""

from .. import ctxsim, model, seams
from ..core import violation


class TreeObserver:
    def __init__(self, pid, scn, stats, feature_fn=None):
        self.pid = pid
        self.scn = scn
        self.stats = stats
        self.viol = []
        self.feats = set()
        self.pending = None
        self.tm = model.TreeModel(scn["anns"])
        self.feature_fn = feature_fn
        # open-loop fallback (used only when the white-box memo cannot be read, e.g. after an internal refactoring): the model
        # carries its own context per block instead of being re-synchronised from the observed one
        self.fb_stack = []

    def _args(self, run):
        for f in reversed(run.frames):
            if f["kind"] == "call":
                return dict(f["args"])
            if f["kind"] == "ctx":
                return {}
        return {}

    def _ctx(self, run):
        snap = ctxsim.snapshot()
        ctx = model.Ctx.from_snapshot(snap, self._args(run))
        ctx.structs = {k: model.struct_from_treedef(td) for k, td in ctxsim.live_structs().items()}
        return snap, ctx

    def pre(self, interp, run, op, path):
        if op["op"] in ("ctx", "call"):
            # a call whose parameters are annotated starts its body with bindings the open-loop model does not compute
            certain = op["op"] == "ctx" or all(a is None for _, a in self.scn["fns"][op["fn"]]["params"])
            self.fb_stack.append({"ctx": model.Ctx(args={}), "certain": certain})
            return
        if op["op"] not in ("tree", "arr"):
            return
        if path.endswith(".re"):
            return  # a re-entrant nested check (made by a registered flatten function) is judged with the check it interrupts
        self.re_out = None
        if op["op"] == "tree" and not run.frames:
            return  # the PyTree properties are stated for checks inside a checking context
        self.fallback = False
        with seams.quiet():
            snap, ctx = self._ctx(run)
            self._structs0 = dict(ctx.structs)
            if not snap.get("wb"):
                # structure bindings cannot be re-synchronised from print_bindings() text: without the white-box memo the model
                # runs open loop (its own context per block); a block whose model state became uncertain is no longer judged
                top = self.fb_stack[-1] if self.fb_stack else None
                if top is None or not top["certain"]:
                    self.stats.inc("unjudged_white_box_unavailable")
                    return
                self.stats.inc("judged_open_loop_without_white_box")
                self.fallback = True
                ctx = top["ctx"].copy()
                ctx.args = self._args(run)
            spec = self.scn["anns"][op["ann"]]

            def predict(c):
                if spec["k"] == "arr":
                    return model.match_array(spec, op["val"], c)
                if spec["k"] == "baretree":
                    return {"accept"}, c
                return self.tm.match_tree(spec, op["val"], c)

            outs, post = predict(ctx)
            # history shadow: the same prediction from the context that the ACCEPTED checks of this block imply (open loop, not
            # re-synchronised): a verdict that is right for the observed bindings but wrong for the history means that an earlier
            # operation of the block corrupted the bindings
            self.shadow = None
            top = self.fb_stack[-1] if self.fb_stack else None
            if not self.fallback and run.frames and top is not None and top["certain"]:
                sctx = top["ctx"].copy()
                sctx.args = self._args(run)
                try:
                    self.shadow = predict(sctx)
                except Exception:
                    top["certain"] = False
            self.pending = (snap, outs, post, bool(run.frames), len(seams.state().fired))

    def post(self, interp, run, op, path, out):
        if op["op"] in ("ctx", "call"):
            if self.fb_stack:
                self.fb_stack.pop()
            return
        if op["op"] in ("tree", "arr") and path.endswith(".re"):
            self.re_out = (op, out)
            return
        if op["op"] not in ("tree", "arr") or self.pending is None:
            return
        snap0, outs, post, in_ctx, fired0 = self.pending
        self.pending = None
        if op.get("reentry") and getattr(self, "re_out", None) is not None:
            # the registered node's flatten function checked another tree while THIS check was flattening.  Only generated for
            # plain leaf types (no jaxtyping check runs between the two, so nothing can roll the nested binding back) and only one
            # thing is demanded: if both are accepted, one assignment of structures satisfies both
            self.stats.inc("reentrant_checks")
            nop, nout = self.re_out
            if self.fb_stack:
                self.fb_stack[-1]["certain"] = False
            if in_ctx and out is True and nout is True and snap0.get("wb") and len(seams.state().fired) == fired0:
                ctx0 = model.Ctx.from_snapshot(snap0, self._args(run))
                ctx0.structs = dict(getattr(self, "_structs0", {}) or {})
                ospec, nspec = self.scn["anns"][op["ann"]], self.scn["anns"][nop["ann"]]

                def both(s1, v1, s2, v2):
                    o1, p1 = self.tm.match_tree(s1, v1, ctx0)
                    if "accept" not in o1 or p1 is None:
                        return len(o1) > 1
                    o2, _ = self.tm.match_tree(s2, v2, p1)
                    return "accept" in o2

                self.stats.inc("reentrant_both_accepted")
                if not both(ospec, op["val"], nspec, nop["val"]) and not both(nspec, nop["val"], ospec, op["val"]) and len(self.viol) < 3:
                    self.viol.append(violation(self.pid, "reentrant-consistency", {
                        "path": path, "outer": [self.describe(op["ann"]), op["val"]], "nested_during_flatten": [self.describe(nop["ann"]), nop["val"]],
                        "what": "both checks were accepted in one context although no single assignment of structures satisfies both",
                        "bindings_before": snap0.get("top")}, sig={"oracle": "reentrant-consistency", "shape": self.ann_shape(op["ann"])}))
            return
        if len(seams.state().fired) != fired0:
            self.stats.inc("ops_with_fault_fired")
            if self.fb_stack:
                self.fb_stack[-1]["certain"] = False
            return
        spec = self.scn["anns"][op["ann"]]
        got = "accept" if out is True else "reject" if out is False else (
            "AnnotationError" if out.get("exc") == "AnnotationError" else "exc")
        if getattr(self, "fallback", False) and self.fb_stack:
            if out is True and outs == {"accept"} and post is not None:
                self.fb_stack[-1]["ctx"] = post
            elif out is True or len(outs) > 1:
                self.fb_stack[-1]["certain"] = False
        elif self.fb_stack and in_ctx:
            top = self.fb_stack[-1]
            sh = getattr(self, "shadow", None)
            if sh is None:
                top["certain"] = False if out is True else top["certain"]
            else:
                s_outs, s_post = sh
                if got in outs and got not in s_outs and top["certain"] and len(self.viol) < 3:
                    self.viol.append(violation(self.pid, "history-model", {
                        "path": path, "annotation": self.describe(op["ann"]), "value": op["val"],
                        "what": "the verdict fits the bindings observed just before the check, but not the bindings that the accepted "
                                "checks of this block imply: an earlier operation of the block lost, added or changed a binding",
                        "bindings_observed_before": snap0.get("top"),
                        "bindings_implied_by_history": {"axes": top["ctx"].axes, "variadics": top["ctx"].variadics,
                                                        "structs": sorted(top["ctx"].structs)},
                        "history_model_allows": sorted(s_outs), "implementation": out},
                        sig={"oracle": "history-model", "got": got, "allowed": "+".join(sorted(s_outs)), "kind": op["op"],
                             "shape": self.ann_shape(op["ann"])}))
                    top["certain"] = False
                elif out is True and s_outs == {"accept"} and s_post is not None:
                    top["ctx"] = s_post
                elif out is True or got not in s_outs:
                    top["certain"] = False
            self.stats.inc("history_shadow_judged" if sh is not None else "history_shadow_uncertain")
        self.stats.inc("evaluations")
        self.stats.inc(f"{op['op']}:{got}")
        if self.feature_fn is not None:
            self.feats.add(self.feature_fn(self, op, spec, snap0, got))
        desc = self.describe(op["ann"])
        if got not in outs:
            if len(self.viol) < 3:
                self.viol.append(violation(self.pid, "model-outcome", {
                    "path": path, "annotation": desc, "value": op["val"], "bindings_before": snap0.get("top"),
                    "model_allows": sorted(outs), "implementation": out},
                    sig={"oracle": "model-outcome", "got": got, "allowed": "+".join(sorted(outs)), "kind": op["op"],
                         "shape": self.ann_shape(op["ann"])}))
            return
        if got in ("reject", "AnnotationError") and in_ctx and op["op"] == "tree":
            with seams.quiet():
                snap1 = ctxsim.snapshot()
            if snap1.get("wb") and snap0.get("wb") and snap1.get("top") != snap0.get("top") and len(self.viol) < 3:
                self.viol.append(violation(self.pid, "rejected-tree-binds-nothing", {
                    "path": path, "annotation": desc, "value": op["val"], "outcome": out, "bindings_before": snap0.get("top"),
                    "bindings_after": snap1.get("top")},
                    sig={"oracle": "rejected-tree-binds-nothing", "shape": self.ann_shape(op["ann"])}))
            return
        if got == "accept" and in_ctx and post is not None and outs == {"accept"}:
            with seams.quiet():
                snap1 = ctxsim.snapshot()
                live = {k: model.struct_from_treedef(td) for k, td in ctxsim.live_structs().items()}
            bad = None
            if snap1.get("wb") and not post.same_bindings(snap1):
                bad = "axis bindings"
            elif snap1.get("wb") and live != post.structs:
                bad = "structure bindings"
            if bad and len(self.viol) < 3:
                self.viol.append(violation(self.pid, "model-poststate", {
                    "path": path, "annotation": desc, "value": op["val"], "what": bad, "bindings_before": snap0.get("top"),
                    "model_after": {"axes": post.axes, "variadics": post.variadics, "structs": sorted(post.structs)},
                    "implementation_after": snap1.get("top")},
                    sig={"oracle": "model-poststate", "what": bad, "kind": op["op"], "shape": self.ann_shape(op["ann"])}))

    # -- descriptions
    def describe(self, aid):
        if aid in ctxsim.BUILTIN_TYPES:
            return aid
        s = self.scn["anns"][aid]
        k = s["k"]
        if k == "arr":
            return f"{s['dtype']}[{s['atype']},{s['dims']!r}]"
        if k == "tree":
            return f"PyTree[{self.describe(s['leaf'])}" + (f",{s['struct']!r}]" if s.get("struct") else "]")
        if k == "union" and s.get("pep604"):
            return " | ".join(self.describe(i) for i in s["items"])
        if k in ("tuple", "union"):
            return f"{k}[{','.join(self.describe(i) for i in s['items'])}]"
        if k in ("listof", "dictof"):
            return f"{k}[{self.describe(s['item'])}]"
        return k

    def ann_shape(self, aid):
        """Coarse structural class of an annotation (for signatures)."""
        if aid in ctxsim.BUILTIN_TYPES:
            return aid
        s = self.scn["anns"][aid]
        k = s["k"]
        if k == "arr":
            return "arr" + ("?" if "?" in s["dims"] else "")
        if k == "tree":
            st = s.get("struct")
            sk = "none" if st is None else "name" if st.isidentifier() else "composite"
            return f"tree({self.ann_shape(s['leaf'])};{sk})"
        if k == "union" and s.get("pep604"):
            return f"pep604union({','.join(self.ann_shape(i) for i in s['items'])})"
        if k in ("tuple", "union"):
            return f"{k}({','.join(self.ann_shape(i) for i in s['items'])})"
        if k in ("listof", "dictof"):
            return f"{k}({self.ann_shape(s['item'])})"
        return k


def leaf_value(g, r, anns, L, pref, good, idx):
    """A value for leaf type L (good: should match)."""
    if L == "int":
        return {"t": "int", "v": idx} if good else r.choice(({"t": "str", "v": "x"}, {"t": "float", "v": 1}))
    if L == "str":
        return {"t": "str", "v": f"s{idx}"} if good else {"t": "int", "v": 3}
    if L == "any":
        return r.choice(({"t": "int", "v": idx}, {"t": "str", "v": "a"}, {"t": "np", "s": [2], "d": "float32"}))
    if L == "leaf":
        return {"t": "leaf"} if good else {"t": "int", "v": 1}
    spec = anns[L]
    k = spec["k"]
    if k == "arr":
        vt = "np" if spec["atype"] in ("np", "any") else spec["atype"]
        p = dict(pref, n=pref.get("n", 2) + (idx % 2 if "?" in spec["dims"] else 0))
        if not good and spec["atype"] in ("np", "duck") and r.random() < 0.3:
            # right shape and dtype, WRONG array class (a numpy array where a Duck is asked for, and vice versa)
            return g.arr_val(L, p, p_bad=0.0, vt="duck" if spec["atype"] == "np" else "np")
        return g.arr_val(L, p, p_bad=0.0 if good else 0.7, vt=vt if (good or r.random() < 0.8) else "str")
    if k == "tuple":
        items = spec["items"]
        bad_at = -1 if good else r.randrange(len(items))
        return {"t": r.choice(("tuple", "tuple", "nt")) if len(items) == 2 else "tuple",
                "c": [leaf_value(g, r, anns, it, pref, i != bad_at, idx) for i, it in enumerate(items)]}
    if k == "listof":
        n = r.randrange(0, 3)
        bad_at = -1 if good else r.randrange(n + 1)
        items = [leaf_value(g, r, anns, spec["item"], pref, i != bad_at, idx) for i in range(n)]
        if not good and bad_at >= n:
            return {"t": "tuple", "c": items}
        return {"t": "list", "c": items}
    if k == "dictof":
        keys = ["k0", "k1"][: r.randrange(0, 3)]
        bad_at = -1 if good else r.randrange(len(keys) + 1)
        if not good and bad_at >= len(keys):
            return {"t": "int", "v": 5}
        return {"t": "dict", "c": [[kk, leaf_value(g, r, anns, spec["item"], pref, i != bad_at, idx)] for i, kk in enumerate(keys)]}
    if k == "union":
        if good:
            return leaf_value(g, r, anns, r.choice(spec["items"]), pref, True, idx)
        return {"t": "float", "v": 2}
    if k == "tree":
        return leaf_value(g, r, anns, spec["leaf"], pref, good, idx)
    raise ValueError(k)
