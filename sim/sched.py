"""Baton scheduler: simulated threads are real threads (threading.local is keyed by real thread
identity) of which exactly one -- the baton holder -- is runnable.  Pre-emption points are
sys.settrace 'line' events in frames whose code lives under /repo/jaxtyping/ (plus 'opcode' events
in _storage.py when asked for), and explicit yield_point() calls made by harness-owned user code.
Who runs next is decided by a policy object driven by one seeded PRNG, or by an explicit recorded
schedule (replay).  No supervisor thread: the scheduler code runs inside the baton holder."""

import faulthandler
import linecache
import os
import sys
import threading

from .core import JT_DIR, HarnessError

_WINDOW_ENTER = {
    "set_treeflatten_memo()": "flatten",
    "set_treepath_memo(": "leaf",
    "arg_memo_bak = arg_memo.copy()": "snapshot",
    "push_shape_memo(": "pushed",
}
_WINDOW_EXIT = {
    "clear_treeflatten_memo()": "flatten",
    "clear_treepath_memo()": "leaf",
    "pop_shape_memo()": "pushed",
}
WINDOWS = ("flatten", "leaf", "snapshot", "pushed")


class Scheduler:
    def __init__(self, n, policy, opcode_storage=False, watchdog_s=60.0, opcode_all=False):
        self.n = n
        self.policy = policy
        self.opcode_storage = opcode_storage or opcode_all
        self.opcode_all = opcode_all
        self.watchdog_s = watchdog_s
        self.sems = [threading.Semaphore(0) for _ in range(n)]
        self.done = threading.Semaphore(0)
        self.alive = [True] * n
        self.ycount = [0] * n
        self.total_yields = 0
        self.handovers = []  # (from, ycount_of_from | "fin", to, loc)
        self.cur = None
        self.errors = []
        self.open = [dict() for _ in range(n)]  # per thread: window -> nesting count
        self.prev_text = [""] * n
        self.in_window_handover = {}
        self.snap_frames = [[] for _ in range(n)]
        self.prev_frame = [None] * n
        self.lines_seen = set()
        self.global_lines = set()  # lines that touch module-level MUTABLE state (the only thing threads can share)
        self._code_lines = {}
        # schedule coordinates: (thread, id of the innermost operation, yield count inside it) -- stable
        # under deletion of other operations, which is what lets the minimiser make progress
        self.opstack = [[["root", 0]] for _ in range(n)]
        # real locks owned by the system under test (module-level threading.Lock objects of jaxtyping): only one simulated
        # thread runs at a time, so a lock that is held is held by the running thread; it is not pre-empted inside such a
        # critical section (the next thread could only block on it, and a parked owner would wedge the simulation)
        lock_t = (type(threading.Lock()), type(threading.RLock()))
        self.sut_locks = [v for name, mod in sorted(sys.modules.items()) if name.split(".")[0] == "jaxtyping" and mod is not None
                          for v in vars(mod).values() if isinstance(v, lock_t)]
        for name, mod in sorted(sys.modules.items()):  # ... and locks kept as attributes of module-level objects of the library
            if name.split(".")[0] == "jaxtyping" and mod is not None:
                for v in list(vars(mod).values()):
                    if (getattr(type(v), "__module__", "") or "").startswith("jaxtyping") and hasattr(v, "__dict__") and not isinstance(v, type):
                        try:
                            self.sut_locks.extend(a for a in vars(v).values() if isinstance(a, lock_t))
                        except TypeError:
                            pass
        self.skipped_in_critical_section = 0

    # -- running ------------------------------------------------------------------------------
    def run(self, fns):
        assert len(fns) == self.n
        if getattr(self, "inherit_context", False):
            # threads started the way asyncio.to_thread / executors with copy_context() start them: each runs in a COPY of the
            # starter's contextvars context (a copy shares every mutable object the starter's variables point to)
            import contextvars

            ths = [threading.Thread(target=contextvars.copy_context().run, args=(self._main, i, fn), daemon=True) for i, fn in enumerate(fns)]
        else:
            ths = [threading.Thread(target=self._main, args=(i, fn), daemon=True) for i, fn in enumerate(fns)]
        for t in ths:
            t.start()
        first = self.policy.first(self)
        self.cur = first
        self.sems[first].release()
        if not self.done.acquire(timeout=self.watchdog_s):
            faulthandler.dump_traceback(file=sys.stderr, all_threads=True)
            raise HarnessError(f"scheduler wedged (cur={self.cur}, alive={self.alive}, yields={self.ycount})")
        for t in ths:
            t.join(timeout=5)
        if self.errors:
            raise HarnessError(f"harness exception inside simulated thread: {self.errors[0]!r}")

    def _main(self, i, fn):
        self.sems[i].acquire()
        sys.settrace(self._gtrace)
        try:
            fn()
        except BaseException as e:  # the interpreter catches everything it should; this is a bug
            sys.settrace(None)
            import traceback

            self.errors.append((i, repr(e), traceback.format_exc()))
        finally:
            sys.settrace(None)
            self.alive[i] = False
            nxt = self.policy.on_finish(self, i)
            if nxt is None:
                self.done.release()
            else:
                self.handovers.append((i, "fin", nxt, None))
                self.cur = nxt
                self.sems[nxt].release()

    # -- tracing ------------------------------------------------------------------------------
    def _gtrace(self, frame, event, arg):
        fn = frame.f_code.co_filename
        if fn.startswith(JT_DIR):
            if self.opcode_all or (self.opcode_storage and fn.endswith("_storage.py")):
                frame.f_trace_opcodes = True
            return self._ltrace
        return None

    def _ltrace(self, frame, event, arg):
        if event == "line":
            code = frame.f_code
            self.yield_point((os.path.basename(code.co_filename), frame.f_lineno), code.co_filename, frame)
        elif event == "opcode":
            code = frame.f_code
            self.yield_point((os.path.basename(code.co_filename), frame.f_lineno, frame.f_lasti), None, None)
        elif event == "return":
            i = self.cur
            sf = self.snap_frames[i]
            if sf and sf[-1] is frame:
                sf.pop()
                self._close(i, "snapshot")
        return self._ltrace

    def _close(self, i, w):
        o = self.open[i]
        if o.get(w, 0) > 0:
            o[w] -= 1
            if o[w] == 0:
                del o[w]

    def _track_windows(self, i, filename, lineno, frame):
        # the line event fires BEFORE the line runs: act on the text of the previous line
        prev = self.prev_text[i]
        if prev:
            for pat, w in _WINDOW_ENTER.items():
                if pat in prev:
                    self.open[i][w] = self.open[i].get(w, 0) + 1
                    self.policy.on_enter(self, i, w)
                    if w == "snapshot":
                        self.snap_frames[i].append(self.prev_frame[i])
            for pat, w in _WINDOW_EXIT.items():
                if pat in prev:
                    self._close(i, w)
        self.prev_text[i] = linecache.getline(filename, lineno)
        self.prev_frame[i] = frame

    def op_begin(self, opid):
        self.opstack[self.cur].append([opid, 0])

    def op_end(self):
        st = self.opstack[self.cur]
        if len(st) > 1:
            st.pop()

    def yield_point(self, loc, filename=None, frame=None):
        i = self.cur
        self.ycount[i] += 1
        self.total_yields += 1
        top = self.opstack[i][-1]
        top[1] += 1
        if filename is not None:
            self._track_windows(i, filename, loc[1], frame)
            key = (loc[0], loc[1])
            if key not in self.lines_seen:
                self.lines_seen.add(key)
                if frame is not None and self._touches_shared(frame, loc[1]):
                    self.global_lines.add(key)
        if self.sut_locks and any((lk.locked() if hasattr(lk, "locked") else lk._is_owned()) for lk in self.sut_locks):
            self.skipped_in_critical_section += 1
            return
        tgt = self.policy.decide(self, i, loc)
        if tgt is not None and tgt != i and self.alive[tgt]:
            self.handovers.append((i, [top[0], top[1]], tgt, loc))
            for w in self.open[i]:
                self.in_window_handover[w] = self.in_window_handover.get(w, 0) + 1
            self.cur = tgt
            self.sems[tgt].release()
            self.sems[i].acquire()

    def _touches_shared(self, frame, lineno):
        """Does this source line load/store a module-level name bound to mutable state (dict/list/set, a threading.local,
        or an instance of a class defined by the library itself)?  Computed once per code object with dis."""
        import dis
        import types

        code = frame.f_code
        tab = self._code_lines.get(code)
        if tab is None:
            tab = {}
            cur = None
            for ins in dis.get_instructions(code):
                if ins.starts_line is not None:
                    cur = ins.starts_line
                if ins.opname in ("LOAD_GLOBAL", "STORE_GLOBAL", "LOAD_NAME") and isinstance(ins.argval, str):
                    tab.setdefault(cur, set()).add(ins.argval)
            self._code_lines[code] = tab
        for name in tab.get(lineno, ()):
            v = frame.f_globals.get(name, None)
            if v is None:
                continue
            if isinstance(v, (dict, list, set, bytearray, threading.local)):
                return True
            if isinstance(v, (types.ModuleType, types.FunctionType, types.BuiltinFunctionType, type)):
                continue
            mod = getattr(type(v), "__module__", "") or ""
            if mod.startswith("jaxtyping"):
                return True
        return False

    def alive_others(self, i):
        return [j for j in range(self.n) if j != i and self.alive[j]]

    def explicit_schedule(self):
        return [[a, b, c] for (a, b, c, _) in self.handovers]


# ------------------------------------------------------------------------------------------
# policies

class Policy:
    def first(self, s):
        return 0

    def decide(self, s, i, loc):
        return None

    def on_enter(self, s, i, w):
        pass

    def on_finish(self, s, i):
        for j in range(s.n):
            if s.alive[j]:
                return j
        return None


class Solo(Policy):
    """No hand-overs: thread 0 to completion, then 1, ..."""


class RandomPolicy(Policy):
    def __init__(self, rnd, p):
        self.rnd = rnd
        self.p = p

    def first(self, s):
        return self.rnd.randrange(s.n)

    def decide(self, s, i, loc):
        if self.rnd.random() < self.p:
            o = s.alive_others(i)
            if o:
                return o[self.rnd.randrange(len(o))]
        return None

    def on_finish(self, s, i):
        o = s.alive_others(i)
        return o[self.rnd.randrange(len(o))] if o else None


class HotLines(RandomPolicy):
    """Coin flips biased to the lines that touch module-level mutable state of the system under test (the only places where
    an interleaving can matter): probability p_hot there, p elsewhere -- long stretches run to completion in between."""

    def __init__(self, rnd, p_hot, p):
        super().__init__(rnd, p)
        self.p_hot = p_hot

    def decide(self, s, i, loc):
        hot = len(loc) >= 2 and (loc[0], loc[1]) in s.global_lines
        if self.rnd.random() < (self.p_hot if hot else self.p):
            o = s.alive_others(i)
            if o:
                return o[self.rnd.randrange(len(o))]
        return None


class PCT(Policy):
    """Random priorities, d priority-change points over the expected run length."""

    def __init__(self, rnd, n, d, expected_yields):
        self.rnd = rnd
        self.prio = list(range(n))
        rnd.shuffle(self.prio)
        self.low = -1
        self.points = sorted(rnd.randrange(1, max(2, expected_yields)) for _ in range(d))

    def _best(self, s):
        best = None
        for j in range(s.n):
            if s.alive[j] and (best is None or self.prio[j] > self.prio[best]):
                best = j
        return best

    def first(self, s):
        return self._best(s)

    def decide(self, s, i, loc):
        if self.points and s.total_yields >= self.points[0]:
            self.points.pop(0)
            self.prio[i] = self.low
            self.low -= 1
            return self._best(s)
        return None

    def on_finish(self, s, i):
        return self._best(s)


class Window(Policy):
    """Run the victim until it is inside window w for the k-th time, park it there, let the others run
    for a budget of yield points (or until they finish), then continue with random(p)."""

    def __init__(self, rnd, n, w, k, budget, p):
        self.rnd = rnd
        self.victim = rnd.randrange(n)
        self.w = w
        self.k = k
        self.budget = budget
        self.p = p
        self.seen = 0
        self.state = "hunt"  # hunt -> fire -> parked -> free
        self.delay = 0
        self.used = 0

    def first(self, s):
        return self.victim

    def on_enter(self, s, i, w):
        if self.state == "hunt" and i == self.victim and w == self.w:
            self.seen += 1
            if self.seen >= self.k:
                self.state = "fire"
                self.delay = self.rnd.randrange(0, 6)  # a few lines into the window

    def decide(self, s, i, loc):
        st = self.state
        if st == "hunt":
            return None if i == self.victim else self.victim
        if st == "fire":
            if i != self.victim:
                return self.victim
            if self.w not in s.open[i]:
                self.state = "hunt"  # the window closed before we fired: look for the next one
                return None
            if self.delay > 0:
                self.delay -= 1
                return None
            o = s.alive_others(i)
            if not o:
                self.state = "free"
                return None
            self.state = "parked"
            return o[self.rnd.randrange(len(o))]
        if st == "parked":
            self.used += 1
            if self.used >= self.budget:
                self.state = "free"
                return self.victim if s.alive[self.victim] else None
            if self.rnd.random() < self.p:
                o = [j for j in s.alive_others(i) if j != self.victim]
                if o:
                    return o[self.rnd.randrange(len(o))]
            return None
        # free
        if self.rnd.random() < self.p:
            o = s.alive_others(i)
            if o:
                return o[self.rnd.randrange(len(o))]
        return None

    def on_finish(self, s, i):
        if self.state == "parked":
            o = [j for j in s.alive_others(i) if j != self.victim]
            if o:
                return o[self.rnd.randrange(len(o))]
            self.state = "free"
        o = s.alive_others(i)
        if not o:
            return None
        if self.state == "hunt" and s.alive[self.victim]:
            return self.victim
        return o[self.rnd.randrange(len(o))]


class Rendezvous(Policy):
    """Race two threads through the SAME source line: run the victim until it is about to execute line L for the
    k-th time, park it there, run the others until one of them arrives at L too (so it has just executed the lines
    before L) or a budget runs out, then let the victim execute L.  Any bug that shares state between threads has
    both threads passing through the code that touches that state; L is drawn uniformly from the distinct lines the
    solo run executed, so rarely executed lines are as likely to be targeted as hot ones."""

    def __init__(self, rnd, n, line, k, budget, p):
        self.rnd = rnd
        self.victim = rnd.randrange(n)
        self.line = tuple(line)
        self.k = k
        self.budget = budget
        self.p = p
        self.seen = 0
        self.state = "hunt"
        self.used = 0

    def first(self, s):
        return self.victim

    def decide(self, s, i, loc):
        st = self.state
        at_line = len(loc) >= 2 and (loc[0], loc[1]) == self.line
        if st == "hunt":
            if i != self.victim:
                return self.victim if s.alive[self.victim] else None
            if at_line:
                self.seen += 1
                if self.seen >= self.k:
                    o = s.alive_others(i)
                    if not o:
                        self.state = "free"
                        return None
                    self.state = "parked"
                    return o[self.rnd.randrange(len(o))]
            return None
        if st == "parked":
            self.used += 1
            if (at_line and i != self.victim) or self.used >= self.budget:
                self.state = "free"
                return self.victim if s.alive[self.victim] else None
            return None
        if self.rnd.random() < self.p:
            o = s.alive_others(i)
            if o:
                return o[self.rnd.randrange(len(o))]
        return None

    def on_finish(self, s, i):
        o = s.alive_others(i)
        if not o:
            return None
        if self.state == "parked":
            rest = [j for j in o if j != self.victim]
            if rest:
                return rest[self.rnd.randrange(len(rest))]
            self.state = "free"
            return self.victim
        if self.state == "hunt" and s.alive[self.victim]:
            return self.victim
        return o[self.rnd.randrange(len(o))]


class Explicit(Policy):
    """Replay of a recorded schedule: [[from, [op id, yield count inside that op] | 'fin', to], ...]."""

    def __init__(self, schedule, first=0):
        self.tab = {}
        self.fin = {}
        self._first = first
        for a, b, c in schedule:
            if b == "fin":
                self.fin[a] = c
            else:
                self.tab[(a, b[0], b[1])] = c

    def first(self, s):
        return self._first

    def decide(self, s, i, loc):
        top = s.opstack[i][-1]
        return self.tab.get((i, top[0], top[1]))

    def on_finish(self, s, i):
        t = self.fin.get(i)
        if t is not None and s.alive[t]:
            return t
        return Policy.on_finish(self, s, i)


def make_policy(spec, n, rnd, expected_yields=4000):
    k = spec["kind"]
    if k == "solo":
        return Solo()
    if k == "random":
        return RandomPolicy(rnd, spec["p"])
    if k == "hot":
        return HotLines(rnd, spec["p_hot"], spec["p"])
    if k == "pct":
        return PCT(rnd, n, spec["d"], expected_yields)
    if k == "window":
        return Window(rnd, n, spec["w"], spec["k"], spec["budget"], spec["p"])
    if k == "rendezvous":
        if spec.get("line") is None:  # the caller did not resolve a target line: degrade to random pre-emption
            return RandomPolicy(rnd, 0.02)
        return Rendezvous(rnd, n, spec["line"], spec["k"], spec["budget"], spec["p"])
    if k == "explicit":
        return Explicit(spec["schedule"], spec.get("first", 0))
    raise ValueError(k)


def draw_policy_spec(rnd):
    """Swarm choice of a scheduling strategy for one run."""
    r = rnd.random()
    if r < 0.3:
        import math

        p = math.exp(rnd.uniform(math.log(0.0005), math.log(0.3)))
        return {"kind": "random", "p": round(p, 5)}
    if r < 0.4:
        return {"kind": "pct", "d": rnd.choice([1, 2, 3])}
    if r < 0.7:
        # the target line is drawn by the check from the lines its solo run executed ("line": None here)
        return {"kind": "rendezvous", "line": None, "k": rnd.choice([1, 1, 2, 3]), "budget": rnd.choice([2000, 100000]),
                "p": rnd.choice([0.0, 0.02])}
    return {
        "kind": "window",
        "w": rnd.choice(WINDOWS),
        "k": rnd.choice([1, 1, 2, 3, 5]),
        "budget": rnd.choice([50, 300, 2000, 100000]),
        "p": rnd.choice([0.0, 0.01, 0.1]),
    }
