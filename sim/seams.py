"""Fault and observation seams: every piece of user / third-party code that jaxtyping calls out to
is supplied by the harness, so a fault is 'the k-th call-out of kind <site> in this thread raises
<exc>'.  All state is per simulated thread (a threading.local owned by the harness, NOT by
jaxtyping)."""

import functools
import inspect
import sys
import threading
import typing
import warnings

import jax.tree_util as jtu

import jaxtyping


class Abort(BaseException):
    """Harness-defined BaseException (neither Exception nor one of the builtins)."""


EXC = {
    "RuntimeError": RuntimeError,
    "ValueError": ValueError,
    "TypeError": TypeError,
    "AnnotationError": jaxtyping.AnnotationError,
    "KeyboardInterrupt": KeyboardInterrupt,
    "SystemExit": SystemExit,
    "GeneratorExit": GeneratorExit,
    "Abort": Abort,
}
EXC_ORDINARY = ("RuntimeError", "TypeError", "AnnotationError")
EXC_BASE = ("KeyboardInterrupt", "SystemExit", "GeneratorExit", "Abort")
EXC_ALL = EXC_ORDINARY + EXC_BASE

SITES = (
    "body",
    "tc.decorate",
    "tc.call",
    "duck.shape",
    "duck.dtype",
    "atype.instancecheck",
    "leaf.instancecheck",
    "node.flatten",
    "node.unflatten",
    "fmt.attr",
    "fmt.format",
    "repr",
    "stdout.write",
    "module.body",
)

_tl = threading.local()


class SeamState:
    def __init__(self, plan=None, sched=None, yield_on_seams=False):
        self.plan = dict(plan or {})  # (site, k) -> exc name
        self.counts = {}
        self.fired = []
        self.sched = sched
        self.yield_on_seams = yield_on_seams
        self.out = []
        self.tc_observer = None
        self.enabled = True
        self.reentry = {}  # (site, k) -> callable: user code that calls back into jaxtyping from inside a call-out


def install(state):
    _tl.state = state
    return state


def uninstall():
    _tl.state = None


def state():
    return getattr(_tl, "state", None)


def hit(site):
    st = getattr(_tl, "state", None)
    if st is None or not st.enabled:
        return
    n = st.counts.get(site, 0) + 1
    st.counts[site] = n
    if st.yield_on_seams and st.sched is not None:
        st.sched.yield_point(("seam", site, n))
    if st.reentry:
        cb = st.reentry.pop((site, n), None)
        if cb is not None:
            cb()  # re-entrant use of jaxtyping from user code (a shape property, a flatten function) during a check
    exc = st.plan.get((site, n))
    if exc is not None:
        st.fired.append((site, n, exc))
        raise EXC[exc](f"injected fault {site}#{n}")


class quiet:
    """Context manager: call-outs made by the harness itself (oracle probes) are not counted and
    never faulted."""

    def __enter__(self):
        self.st = state()
        if self.st is not None:
            self.prev = self.st.enabled
            self.st.enabled = False

    def __exit__(self, *a):
        if self.st is not None:
            self.st.enabled = self.prev


# ------------------------------------------------------------------------------------------
# stdout router (contextlib.redirect_stdout is process-global and therefore useless here)

class _Router:
    def __init__(self, real):
        self.real = real

    def write(self, s):
        st = getattr(_tl, "state", None)
        if st is None:
            return self.real.write(s)
        hit("stdout.write")
        st.out.append(s)
        return len(s)

    def flush(self):
        st = getattr(_tl, "state", None)
        if st is None:
            self.real.flush()

    def __getattr__(self, name):
        return getattr(self.real, name)


def install_router():
    if not isinstance(sys.stdout, _Router):
        sys.stdout = _Router(sys.stdout)


def take_output():
    st = state()
    s = "".join(st.out)
    st.out.clear()
    return s


# ------------------------------------------------------------------------------------------
# duck arrays and array types

class Duck:
    """Array-like whose attribute reads are call-outs."""

    def __init__(self, shape, dtype="float32"):
        self._shape = tuple(shape)
        self._dtype = dtype

    @property
    def shape(self):
        hit("duck.shape")
        return self._shape

    @property
    def dtype(self):
        hit("duck.dtype")
        return self._dtype

    def __repr__(self):
        hit("repr")
        return f"Duck({self._shape},{self._dtype})"


class BadReprDuck(Duck):
    """A duck array that cannot be printed (e.g. a half-initialised object): error messages must still be produced."""

    def __repr__(self):
        raise RuntimeError("this object cannot be printed")


class _MetaArr(type):
    def __instancecheck__(cls, obj):
        hit("atype.instancecheck")
        return type.__instancecheck__(cls, obj)


class MDuck(Duck, metaclass=_MetaArr):
    """Array type whose isinstance test is a call-out (values must be MDuckSub so that the fast
    path type(x) is C does not skip the metaclass)."""


class MDuckSub(MDuck):
    pass


class _MetaLeaf(type):
    def __instancecheck__(cls, obj):
        hit("leaf.instancecheck")
        return type.__instancecheck__(cls, obj)


class Leaf(metaclass=_MetaLeaf):
    def __repr__(self):
        return "LeafSub()"


class LeafSub(Leaf):
    pass


class Node:
    """Registered PyTree node whose flatten function is a call-out (and a long window)."""

    def __init__(self, children):
        self.children = list(children)

    def __repr__(self):
        return f"Node({self.children!r})"


def _node_flatten(n):
    hit("node.flatten")
    return tuple(n.children), None


def _node_unflatten(aux, children):
    # also a call-out: composite / prefix / suffix structure checks rebuild dummy trees from the bound structures
    hit("node.unflatten")
    return Node(children)


jtu.register_pytree_node(Node, _node_flatten, _node_unflatten)

NT = __import__("collections").namedtuple("NT", ["p", "q"])


class FmtObj:
    """Argument object used as {o.n} / {o} inside symbolic axes."""

    def __init__(self, n):
        self._n = n

    @property
    def n(self):
        hit("fmt.attr")
        return self._n

    def __format__(self, spec):
        hit("fmt.format")
        return str(self._n)

    def __repr__(self):
        return f"FmtObj({self._n})"


# ------------------------------------------------------------------------------------------
# typecheckers

def _minimal(fn):
    """A tiny isinstance-walking typechecker: parameters in declaration order, then the return."""
    sig = inspect.signature(fn)
    hints = {}
    for name, p in sig.parameters.items():
        if p.annotation is not inspect.Parameter.empty:
            hints[name] = p.annotation
    ret = sig.return_annotation

    def _ok(v, ann):
        if ann is typing.Any or ann is inspect.Signature.empty:
            return True
        if typing.get_origin(ann) is typing.Union:
            return any(_ok(v, a) for a in typing.get_args(ann))
        return isinstance(v, ann)

    @functools.wraps(fn)
    def wrapper(*args, **kwargs):
        bound = sig.bind(*args, **kwargs)
        bound.apply_defaults()
        for name, ann in hints.items():
            if not _ok(bound.arguments[name], ann):
                raise TypeError(f"minimal: parameter {name} does not match {ann}")
        out = fn(*args, **kwargs)
        if ret is not inspect.Signature.empty and not _ok(out, ret):
            raise TypeError(f"minimal: return value does not match {ret}")
        return out

    return wrapper


def _real_checker(name):
    if name == "tg":
        import typeguard

        return typeguard.typechecked
    if name == "bt":
        import beartype

        return beartype.beartype
    if name == "min":
        return _minimal
    raise ValueError(name)


def make_tc(name):
    """Typechecker wrapper: a seam between jaxtyping and the real checker.  tc.decorate / tc.call
    are fault sites; exceptions of the real checker pass through the thread's tc_observer."""
    real = _real_checker(name)

    def tc(fn):
        hit("tc.decorate")
        inner = real(fn)

        @functools.wraps(inner)
        def checked(*args, **kwargs):
            hit("tc.call")
            try:
                out = inner(*args, **kwargs)
            except BaseException as e:
                st = state()
                if st is not None and st.tc_observer is not None:
                    with quiet():
                        st.tc_observer(fn, e, args, kwargs)
                raise
            st = state()
            if st is not None and st.tc_observer is not None:
                with quiet():
                    st.tc_observer(fn, None, args, kwargs)
            return out

        return checked

    tc.__name__ = f"tc_{name}"
    return tc


TCS = {n: make_tc(n) for n in ("tg", "bt", "min")}

SPY_LOG = []


def spy_tc(fn, *a, **k):
    """Importable spy typechecker for hook operations ("sim.seams.spy_tc")."""
    hit("tc.decorate")
    SPY_LOG.append((getattr(fn, "__module__", None), getattr(fn, "__qualname__", None)))
    return fn
