"""Minimiser: delta debugging over the plain-data scenario.  A candidate is kept only if it fails the
SAME oracle of the same property (not merely 'fails') and is not a known finding."""

import copy
import importlib
import time
import warnings

from . import core

OP_LIST_KEYS = ("body", "prefix", "cont", "ops")
TOP_LIST_KEYS = ("ops", "prefix", "cont", "history", "runs", "faults", "cells")


def _init(mod):
    warnings.simplefilter("ignore")
    if hasattr(mod, "worker_init"):
        mod.worker_init()
    else:
        from . import ctxsim

        ctxsim.warm_up()


def _lists(scn):
    """Accessor paths (tuples of keys/indices) of every shrinkable list in the scenario."""
    out = []

    def walk(obj, path):
        if isinstance(obj, list):
            out.append(path)
            for i, x in enumerate(obj):
                if isinstance(x, dict):
                    for k in OP_LIST_KEYS:
                        if isinstance(x.get(k), list):
                            walk(x[k], path + (i, k))

    if isinstance(scn.get("threads"), list):
        for i, p in enumerate(scn["threads"]):
            walk(p, ("threads", i))
    for k in TOP_LIST_KEYS:
        if isinstance(scn.get(k), list):
            walk(scn[k], (k,))
    if isinstance(scn.get("sched"), dict) and scn["sched"].get("kind") == "explicit":
        out.append(("sched", "schedule"))
    return out


def _at(obj, path):
    for k in path:
        obj = obj[k]
    return obj


def minimise(pid, u, budget_s=120.0):
    mod = importlib.import_module(f"sim.props.{pid.lower()}")
    _init(mod)
    findings = core.load_known_findings()
    target = u["violation"]["oracle"]
    t_end = time.time() + budget_s
    tests = [0]

    def fails(scn):
        tests[0] += 1
        try:
            core.gc_point()
            res = mod.execute(scn)
        except BaseException:
            return None
        for v in res["violations"]:
            if v["oracle"] == target and core.match_known(v, findings) is None:
                return res, v
        return None

    scn = u["scenario"]
    base = fails(scn)
    if base is None:
        raise core.HarnessError(f"violation of {pid} (seed {u['seed']}) does not reproduce in the parent process")
    res, v = base
    state = {"scn": scn, "res": res, "v": v, "min": False}
    if hasattr(mod, "concretise"):
        cand = mod.concretise(scn, res)
        got = fails(cand)
        if got is not None:
            state["scn"], (state["res"], state["v"]) = cand, got

    def try_keep(cand):
        got = fails(cand)
        if got is not None:
            state["scn"] = cand
            state["res"], state["v"] = got
            state["min"] = True
            return True
        return False

    def shrink_list(path, keep_fin=False):
        """ddmin-style: delete chunks of decreasing size, then unwrap blocks."""
        changed = False
        try:
            n = len(_at(state["scn"], path))
        except (KeyError, IndexError, TypeError):
            return False
        size = max(1, n // 2)
        while size >= 1 and time.time() < t_end:
            i = 0
            while time.time() < t_end:
                try:
                    cur = _at(state["scn"], path)
                except (KeyError, IndexError, TypeError):
                    return changed
                if i >= len(cur):
                    break
                if keep_fin and any(isinstance(e, list) and len(e) > 1 and e[1] == "fin" for e in cur[i:i + size]):
                    i += 1 if size == 1 else size
                    continue
                cand = copy.deepcopy(state["scn"])
                lst = _at(cand, path)
                del lst[i:i + size]
                if try_keep(cand):
                    changed = True
                else:
                    i += size
            size //= 2
        return changed

    def unwrap_blocks(path):
        changed = False
        j = 0
        while time.time() < t_end:
            try:
                cur = _at(state["scn"], path)
            except (KeyError, IndexError, TypeError):
                return changed
            if j >= len(cur):
                break
            op = cur[j]
            if isinstance(op, dict) and isinstance(op.get("body"), list) and op.get("op") in ("ctx", "call"):
                cand = copy.deepcopy(state["scn"])
                lst = _at(cand, path)
                lst[j:j + 1] = lst[j]["body"]
                if try_keep(cand):
                    changed = True
                    continue
            j += 1
        return changed

    changed = True
    rounds = 0
    while changed and time.time() < t_end and rounds < 6:
        rounds += 1
        changed = False
        scn = state["scn"]
        # 1. whole threads
        if isinstance(scn.get("threads"), list):
            for i in range(len(scn["threads"]) - 1, -1, -1):
                if state["scn"]["threads"][i]:
                    cand = copy.deepcopy(state["scn"])
                    cand["threads"][i] = []
                    if try_keep(cand):
                        changed = True
        # 2. every list (operations, faults, schedule), outermost first
        k = 0
        while time.time() < t_end:
            ls = _lists(state["scn"])
            if k >= len(ls):
                break
            path = ls[k]
            if path == ("sched", "schedule"):
                if shrink_list(path, keep_fin=True):
                    changed = True
            else:
                if shrink_list(path):
                    changed = True
                if unwrap_blocks(path):
                    changed = True
            k += 1
        # 3. property-specific simplifications
        if hasattr(mod, "shrink_candidates"):
            again = True
            while again and time.time() < t_end:
                again = False
                for cand in mod.shrink_candidates(state["scn"]):
                    if time.time() > t_end:
                        break
                    if try_keep(cand):
                        changed = again = True
                        break
    final = fails(state["scn"])
    if final is None:
        raise core.HarnessError("minimised scenario stopped reproducing")
    res, v = final
    scn = dict(state["scn"], _minimiser={"tests": tests[0], "rounds": rounds})
    return scn, v, res.get("digest"), state["min"]
