#!/usr/bin/env python3
"""Regenerates /verif/MANIFEST.json from the table below (only properties whose check module exists
are claimed; everything else is listed under not_applicable with a reason)."""
import json
import os

V = os.path.dirname(os.path.dirname(os.path.abspath(__file__)))

NA = {
    "C03": "Pure finite table (dtype x category x backend): no state, schedule, clock or fault for a simulator to control; the deciding method would be complete enumeration, a different technique (DESIGN.md 5/C03).",
    "C07": "Per-signature statement about source synthesis of the wrapper; no carried state, interleaving or fault -- quantified over signatures/callable kinds, i.e. input generation, not simulation (DESIGN.md 5/C07).",
    "C10": "Pure AST->AST function over all programs (translation validation over a corpus); no state, schedule or fault (DESIGN.md 5/C10).",
    "C14": "Pure function from a dim string to an annotation or ValueError (the lru_cache only memoises it); nothing to schedule or fault (DESIGN.md 5/C14).",
    "C15": "Equalities between accepted sets of annotation-building expressions; pure, no history, schedule or fault (DESIGN.md 5/C15).",
    "C17": "Value-independence under tracing is a pure statement about which attributes are read; the jit/vmap/grad space is input generation and the trace cache is JAX's state, not jaxtyping's (DESIGN.md 5/C17).",
    "C20": "Pure round-trip equality per annotation; the cross-process route adds no nondeterminism (that pickling does not disturb the original is part of C12's history catalogue) (DESIGN.md 5/C20).",
}

CHECKS = {
    "C06": dict(
        engine="ctxsim", cat="exploration", technique="deterministic simulation: seeded baton-scheduler over real threads (settrace pre-emption), solo-vs-concurrent differential oracle",
        text="Seeded search over thread interleavings of 2-3 real threads parked and released one at a time at every traced line of jaxtyping/ (every opcode of _storage.py, and in a share of runs of every file), random / PCT / window / same-line-rendezvous strategies; each thread's transcript must equal its solo transcript. Sampling, not proof; exploration is the honest level for an all-schedules property.",
        note="Trusted: the baton scheduler, the interpreter of generated programs; pre-emption granularity is a source line outside _storage.py; asynchronous exceptions inside jaxtyping's own frames are outside the fault model."),
    "C05": dict(
        engine="ctxsim", cat="exploration", technique="deterministic simulation: seeded block-tree programs with injected exits (Exception/BaseException from body, typechecker, array attributes), before=after differential on the context stack",
        text="Seeded programs of nested/recursive decorated calls (new/old/None style, dataclass, methods), context blocks and generators; every block exit kind (return, Exception, BaseException, fault in typechecker or argument attribute, non-binding call) at every depth; oracle: caller's bindings and stack depth before = after, entry state empty, {argument} memo is the callee's.",
        note="Trusted: interpreter, white-box read of the thread-local stack (falls back to print_bindings); faults originate in code jaxtyping calls, not between two bytecodes of its wrapper."),
    "C04": dict(
        engine="ctxsim", cat="fault_enumeration", technique="deterministic simulation with single-fault enumeration: every (call-out site, k-th occurrence, exception class) of a seeded check scenario; before=after, idempotence and continuation-differential oracles",
        text="Per seeded scenario (context state, annotation, value) all mismatch positions and every single fault at every call-out (shape/dtype reads, instancecheck, flatten, format) with Exception and BaseException classes are executed; bindings before = after for every failing/raising check, passing checks are idempotent, and follow-up checks behave as in a sibling context that never saw the failed check.",
        note="Scenarios are seeded (sampled); the fault space of each scenario is exhausted. Trusted: seams (Duck arrays, metaclasses, registered node), white-box memo read."),
    "C12": dict(
        engine="ctxsim", cat="fault_enumeration", technique="deterministic simulation with single-fault enumeration over an operation catalogue + seeded multi-fault histories; clean-vs-after-history probe battery",
        text="Every operation of a catalogue (array/PyTree checks, decorated calls of all styles, decorations sharing annotation objects, pickling, hook install/import/uninstall, print_bindings) x every call-out x 7 exception classes, then a probe battery whose verdict vector must equal the one recorded on the clean process state; plus seeded random histories with 0-3 faults and insertion runs (a base history of checks inside contexts must give the same verdicts with unrelated activity spliced in, also inside the live context).",
        note="Probe battery is finite; white-box flags (flatten mode, '?' label, _skip_instancecheck, cache_from_source identity) are read directly and reported."),
    "C18": dict(
        engine="hooksim", cat="exploration", technique="deterministic simulation of run histories over one cache directory: real importlib + real files, simulated mtime clock, soft process restart, disk-fault injection (lost/failed/torn pyc writes, crash mid-run), source edits landing during an in-flight import, baton-scheduled concurrent imports inside a run, model of expected instrumentation per run",
        text="Seeded histories of 2-6 runs over a generated package forest with nested imports, hook subsets, checker changes (incl. a project-local checker package), source edits (same/different length, clock forward/backward, sources that do not compile), reloads, runs with dont_write_bytecode and disk faults (ENOSPC, lost/torn writes, deleted caches, crash at the k-th write), source edits that land right after an in-flight import read the old text, and 2-3 threads importing concurrently under a seeded baton scheduler (pre-emption at every traced line of the hook); per run every completed module load must be instrumented iff the current hook covers it, by the current checker, with the current source's code.",
        note="Process restart is simulated in-process (sys.modules/meta_path/caches purged); a seeded sample is cross-validated with real subprocesses in the thorough tier. Spy typecheckers are stubs."),
    "C11": dict(
        engine="hooksim", cat="exploration", technique="deterministic simulation of install/import/uninstall histories over a generated package forest with spy typecheckers; reference model of the instrumented set",
        text="Seeded single-run histories (bytecode caching off) over look-alike package names, nested/overlapping hooks, with-blocks, double uninstall, pytest entry point, concurrent imports from 2-3 baton-scheduled threads, and notebook histories in a real in-process IPython shell (%load_ext, %jaxtyping.typechecker, defining cells, import cells); oracle: module instrumented iff covered by an active hook at first import, checker in the covering hooks' checkers, nothing instrumented after uninstall.",
        note="The IPython magic is driven through an in-process InteractiveShell, not a Jupyter kernel. Spy typecheckers are stubs; importlib, IPython and the hook are real."),
    "C01": dict(
        engine="ctxsim", cat="exploration", technique="deterministic simulation: seeded check histories against an executable reference model of the dim-string semantics, step-wise refinement from the observed pre-state plus an open-loop history shadow",
        text="Seeded histories of array checks (incl. rejected and raising ones) inside nested contexts; the model is re-synchronised from the observed bindings before each check and predicts an outcome set and post-state; implementation outcome must be in the set and bindings must equal the model's; an open-loop shadow (bindings implied by the accepted checks of the block) must allow the same verdict.",
        note="Deciding dimension is the history (state), not schedule/fault. The reference model (~300 lines) is trusted; unspecified corners are outcome sets."),
    "C02": dict(
        engine="ctxsim", cat="exploration", technique="deterministic simulation: seeded call families (parameter permutations x passing style x decorator spelling x typechecker) against a declarative satisfiability model + sibling agreement",
        text="For each seeded signature/argument tuple, every sibling spelling must give the verdict of the order-independent satisfiability model and agree with every other sibling.",
        note="History inside one call; model trusted; corners where the texts are silent are outcome sets."),
    "C08": dict(
        engine="ctxsim", cat="exploration", technique="deterministic simulation: seeded histories of PyTree checks against a reference tree model with fault stress at flatten/leaf call-outs",
        text="Trees over tuple/list/dict/None/namedtuple/registered nodes, leaf types incl. arrays sharing bindings; outcome in model set, bindings = model's, open-loop history shadow, laws PyTree[L] = PyTree[PyTree[L]], bare PyTree, top-level None as sibling ops.",
        note="Model trusted; jax.tree_util flatten is real."),
    "C09": dict(
        engine="ctxsim", cat="exploration", technique="deterministic simulation: seeded histories over structure bindings against a reference structure algebra (compose/prefix/suffix)",
        text="Triples (t, s, x) generated relative to each other, checked with the four structure forms in contexts where names are bound/unbound; build-time validation of structure strings as run-time ops.",
        note="Model trusted."),
    "C13": dict(
        engine="ctxsim", cat="exploration", technique="deterministic simulation: seeded ill-typed call families; the bindings at the failure instant are observed through a typechecker seam and compared with the parsed error message",
        text="Failure at every parameter position / return value, both checkers, both values of remove_typechecker_stack, also after a nested (recursive) well-typed call of the same function; message stage, function name, blamed parameter and binding lines compared with the observed live state; misuse must surface as AnnotationError.",
        note="Message parsing is trusted; bindings are observed, not modelled."),
    "C16": dict(
        engine="ctxsim", cat="exploration", technique="deterministic simulation: seeded multi-tree histories against a per-leaf-position binding model",
        text="Histories of 2-3 structured PyTree checks with '?' axes alone / in unions / tuples / structure-less PyTrees, plain axes of the same name interleaved; misuse forms.",
        note="Model trusted."),
    "C19": dict(
        engine="ctxsim", cat="exploration", technique="deterministic simulation: seeded toggle/call histories incl. toggles from a second baton-scheduled thread and from the body; disabled-vs-plain differential; subprocess environment configurations",
        text="Every spelling of the switches, every moment of toggling relative to decoration and call (also from the body and from another baton-scheduled thread), all callable kinds, no_type_check below/above/applied later, hooked modules, ill- and well-typed arguments; calls must equal the plain twin when disabled, be checked in a fresh context when enabled, and respect the real-time order of toggles (linearisation); environment spellings in fresh interpreters.",
        note="Environment route uses real subprocesses."),
}


def main():
    checks = []
    claimed = []
    for pid in sorted(CHECKS):
        if not os.path.exists(os.path.join(V, "sim", "props", pid.lower() + ".py")):
            continue
        c = CHECKS[pid]
        claimed.append(pid)
        checks.append({
            "property_id": pid,
            "quick_cmd": f"./check {pid} --tier quick",
            "thorough_cmd": f"./check {pid} --tier thorough",
            "evidence_file": f"/verif/evidence/{pid}.json",
            "replay_cmd_template": "./check --replay {path}",
            "engine": c["engine"],
            "level_claimed": {"category": c["cat"], "text": c["text"], "design_ref": f"DESIGN.md section 5/{pid}"},
            "level_note": c["note"],
            "technique": c["technique"],
        })
    na = [{"property_id": p, "reason": r} for p, r in sorted(NA.items())]
    for pid in sorted(CHECKS):
        if pid not in claimed:
            na.append({"property_id": pid, "reason": "Simulation target by DESIGN.md but its check is not built yet in this tree; not claimed until it is."})
    man = {
        "version": 1,
        "setup_cmd": "cd /verif && ./check --setup",
        "hooks": {
            "guard": "JAXTYPING_VERIF",
            "enable": "none needed: the seams are sys.settrace, harness-owned user code and importlib; no hook exists in /repo",
            "baseline_off_cmd": "cd /repo && /venv/bin/python -m pytest -ra -q -p no:cacheprovider --timeout=900 --continue-on-collection-errors",
            "source_commits": [],
            "add_only": True,
        },
        "engines": [
            {"name": "ctxsim", "path": "/verif/sim/ctxsim.py", "serves_properties": [p for p in claimed if CHECKS[p]["engine"] == "ctxsim"],
             "kind_free_text": "deterministic simulator of jaxtyping's checking contexts: baton-scheduled real threads, fault seams in harness-owned user code, plain-data programs, seeded search, ddmin minimiser, replay files"},
            {"name": "hooksim", "path": "/verif/sim/hooksim.py", "serves_properties": [p for p in claimed if CHECKS[p]["engine"] == "hooksim"],
             "kind_free_text": "deterministic simulator of import-hook histories: real importlib on a real temp dir, simulated mtime clock, soft process restarts, disk-fault injection"},
        ],
        "checks": checks,
        "not_applicable": na,
        "notes": "All checks: exit 0 = held (KNOWN-FINDING lines for listed findings), 1 = VIOLATION line + replay file verified in a fresh interpreter, 2 = harness error. VERIF_SEED, VERIF_TIER, VERIF_BUDGET_S, VERIF_WORKERS are honoured.",
    }
    with open(os.path.join(V, "MANIFEST.json"), "w") as f:
        json.dump(man, f, indent=1)
    print("claimed:", claimed)


if __name__ == "__main__":
    main()
