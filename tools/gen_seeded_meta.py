#!/usr/bin/env python3
"""Writes /verif/seeded/<id>/meta.json for every seeded change from: the sub-agent's own meta (agent_meta.json), my
validation runs (tools/validate_seeded.sh results collected in seeded/validation.json) and the mutant matrix
(seeded/matrix.json).  Also prints the markdown table used in DESIGN.md section 0.4."""
import json
import os
import sys

V = "/verif/seeded"
NOTES = {
    "C04-m1": "rebased on fix cb4ea3a (handler is now 'except BaseException'; the mutant narrows it to AnnotationError)",
    "C04-m2": "rebased on fixes cb4ea3a / f12a222 / 446eb9d (set_shape_memo replaced by savepoint helpers)",
    "C01-m1": "rebased on fix cb4ea3a",
    "C12-m1": "rebased on fixes cb4ea3a / 446eb9d: the '?'-label clear is kept for Exception only (BaseException path restores bindings but not the label)",
    "C18-m1": "rebased on fix 413ae16 (the non-exception-safe manual patching now surrounds get_code(); new demo.py: hooked module whose source does not compile; original kept as demo.orig.py / patch.orig.diff) and again on fix 712502d (the fix's enter/leave steps called by hand without try/finally; a generator-based context manager entered by hand would be finalised by the garbage collector and hide the slip)",
    "C18-m3": "rebased on fix 712502d (textual)",
    "C18-m4": "rebased on fix 712502d (imports)",
    "C18-m5": "rebased on fix 712502d (automatic 3-way merge)",
    "C18-m6": "rebased on fix 712502d (imports)",
    "C18-m7": "rebased on fix 712502d: the mutant's hand-written context manager is made thread-aware like the fix and keeps its slip (bare yield without try/finally)",
    "C18-m8": "rebased on fix 712502d: the mutant re-implements get_code without any monkey patch, so the fix's helpers are simply dropped",
    "C19-m4": "rebased on fix 712502d (automatic 3-way merge)",
    "C19-m5": "rebased on fix df088bc (the guarded _remove_typing moves into the mutant's new module with the other helpers)",
    "C11-m7": "written against b5f9e1b, rebased on fix 712502d (union of both insertions)",
    "C11-m8": "written against b5f9e1b, rebased on fix 712502d (union of both insertions)",
    "C08-m1": "rebased on fix 446eb9d (the mutant's nesting stack replaces the 'only leave flatten mode if we entered it' logic)",
    "C08-m2": "rebased on fixes cb4ea3a / 446eb9d.  Its demo.py no longer fails (after fix 446eb9d nested PyTree checks do not bind AXES during the outer flatten), but the change still breaks 'a rejected tree binds nothing' through STRUCTURE NAMES bound during flattening (a structured PyTree as leaf type of a structure-less one): caught by C04 (before=after) and C16.  Before fix 446eb9d the C08 check caught it directly (rejected-tree-binds-nothing, 1.5 s)",
    "C09-m2": "NEUTRALISED by fix f12a222 (in-place rollback: the dictionary the deferred write goes to can no longer be stale); demo.py passes with the patch applied.  With jaxtyping/_storage.py of f12a222^ the C09 check catches it",
    "C13-m1": "rebased on fix 446eb9d",
    "C16-m1": "rebased on fix 446eb9d (context-manager helper clears the label only for structured PyTrees, as the fixed code does)",
    "C16-m2": "rebased on fix 446eb9d",
}


def main():
    matrix = json.load(open(f"{V}/matrix.json")) if os.path.exists(f"{V}/matrix.json") else {}
    val = json.load(open(f"{V}/validation.json")) if os.path.exists(f"{V}/validation.json") else {}
    rows = []
    for d in sorted(os.listdir(V)):
        p = os.path.join(V, d)
        if not os.path.isdir(p) or not os.path.exists(os.path.join(p, "patch.diff")) or d.startswith("refactor-"):
            continue  # (the behaviour-preserving refactorings have their own meta.json and matrix)
        am = json.load(open(os.path.join(p, "agent_meta.json"))) if os.path.exists(os.path.join(p, "agent_meta.json")) else {}
        m = matrix.get(d, {})
        caught = sorted(c for c, r in m.items() if isinstance(r, dict) and r.get("rc") == 1)
        missed_own = d.split("-")[0] not in caught
        meta = {
            "id": d,
            "property": am.get("property", d.split("-")[0]),
            "summary": am.get("summary"),
            "needs": am.get("needs"),
            "files": am.get("files"),
            "source": "independent sub-agent given only the property text and a scratch worktree",
            "validated_by_me": val.get(d, "see seeded/validation.json"),
            "what_i_ran": "tools/validate_seeded.sh (scratch worktree: demo.py exits 0 on the clean tree and non-zero with patch.diff applied; "
                          "full repository suite unchanged: 267 passed, same 6 environment failures); tools/mutant_matrix.py (every check's quick "
                          "command, 20 s budget, against a scratch clone with the patch applied)",
            "rebase_note": NOTES.get(d),
            "caught_by": {c: {"oracle": m[c].get("oracle"), "wall_s": m[c].get("wall")} for c in caught},
            "not_caught_by": sorted(c for c, r in m.items() if isinstance(r, dict) and r.get("rc") == 0),
        }
        json.dump(meta, open(os.path.join(p, "meta.json"), "w"), indent=1)
        rows.append((d, meta["property"], caught, m, NOTES.get(d, "")))
    # markdown table
    out = ["| seeded change | breaks | what it is (short) | caught by (oracle, seconds to VIOLATION incl. minimisation) |", "|---|---|---|---|"]
    for d, prop, caught, m, note in rows:
        am = json.load(open(os.path.join(V, d, "agent_meta.json")))
        short = (am.get("summary") or "").split(". ")[0][:150]
        cb = ", ".join(f"**{c}** ({m[c].get('oracle')}, {m[c].get('wall')} s)" for c in caught) or ("— (neutralised by a fix: its demo passes with the patch applied, see meta.json)" if "NEUTRALISED" in note else "— **missed**")
        errs = [c for c, r_ in m.items() if isinstance(r_, dict) and r_.get("rc") not in (0, 1)]
        if errs:
            cb += "; exit 2 (harness error, never exit 0) from " + ", ".join(errs)
        out.append(f"| {d} | {prop} | {short} | {cb} |")
    print("\n".join(out))


if __name__ == "__main__":
    main()
