#!/usr/bin/env python3
"""Sensitivity self-test over the hand-written catalogue sim/mutants/catalogue.json (the 'Sensitivity' lists of DESIGN.md
section 5): each entry is applied to a SCRATCH CLONE of /repo, the repository's own suite is run (is the change realistic,
i.e. does it pass the existing tests?) and the property's quick check must exit 1 (or 0 for the must-not-alarm entries).
Writes /verif/seeded/handmade_matrix.json.   usage: tools/handmade_matrix.py [--budget 30] [--only id,id]"""
import argparse, json, os, re, shutil, subprocess, sys, tempfile, time

V = "/verif"
ap = argparse.ArgumentParser()
ap.add_argument("--budget", type=int, default=30)
ap.add_argument("--only", default="")
ap.add_argument("--skip-suite", action="store_true")
a = ap.parse_args()
cat = json.load(open(f"{V}/sim/mutants/catalogue.json"))
if a.only:
    cat = [c for c in cat if c["id"] in a.only.split(",")]
out_path = f"{V}/seeded/handmade_matrix.json"
res = json.load(open(out_path)) if os.path.exists(out_path) else {}
scratch = tempfile.mkdtemp(prefix="jtv_hand_")
try:
    for c in cat:
        wt = os.path.join(scratch, "repo")
        shutil.rmtree(wt, ignore_errors=True)
        subprocess.run(["git", "clone", "-q", "/repo", wt], check=True)
        p = os.path.join(wt, c["file"])
        s = open(p).read()
        if s.count(c["find"]) != 1:
            res[c["id"]] = {"error": f"find text occurs {s.count(c['find'])} times"}
            print(c["id"], res[c["id"]], flush=True)
            continue
        open(p, "w").write(s.replace(c["find"], c["replace"]))
        r = {"property": c["property"], "what": c["what"], "expect": c.get("expect", "alarm")}
        if not a.skip_suite:
            q = subprocess.run(["/venv/bin/python", "-m", "pytest", "-q", "-p", "no:cacheprovider", "--timeout=900", "test/"], cwd=wt,
                               env=dict(os.environ, PYTHONPATH=wt), capture_output=True, text=True, timeout=1800)
            r["suite"] = q.stdout.strip().splitlines()[-1] if q.stdout.strip() else q.stderr[-200:]
            r["passes_existing_tests"] = " 267 passed" in r["suite"] and "6 failed" in r["suite"]
        env = dict(os.environ, VERIF_REPO=wt, VERIF_BUDGET_S=str(a.budget), VERIF_EVIDENCE_DIR=os.path.join(scratch, "ev"),
                   VERIF_REPLAY_DIR=os.path.join(scratch, "rp"), VERIF_SHRINK_S="15")
        t = time.time()
        q = subprocess.run([f"{V}/check", c["property"], "--tier", "quick"], env=env, capture_output=True, text=True, timeout=1200)
        rc_eff = q.returncode if not (q.returncode == 1 and "VIOLATION property=" not in q.stdout) else 2
        mo = re.search(r"oracle=(\S+)", q.stdout)
        r.update({"rc": rc_eff, "wall": round(time.time() - t, 1), "oracle": mo.group(1) if mo else None})
        exp = r["expect"]
        r["ok"] = (rc_eff == 1) if exp == "alarm" else (rc_eff == 0) if exp == "no-alarm" else rc_eff in (0, 1)
        res[c["id"]] = r
        print(c["id"], {k: r[k] for k in ("rc", "wall", "oracle", "ok", "passes_existing_tests") if k in r}, flush=True)
        json.dump(res, open(out_path, "w"), indent=1, sort_keys=True)
finally:
    shutil.rmtree(scratch, ignore_errors=True)
