#!/usr/bin/env python3
"""Runs every seeded change against a set of checks on a SCRATCH COPY of /repo (never /repo itself) and
writes /verif/seeded/matrix.json: {mutant: {check: {"rc":..,"wall":..,"oracle":..}}}.
usage: tools/mutant_matrix.py [--budget 20] [--checks C01,C02,...] [--mutants C06-m1,...] [--own-only]"""
import argparse, json, os, re, shutil, subprocess, sys, tempfile, time

V = "/verif"
ALL = ["C01", "C02", "C04", "C05", "C06", "C08", "C09", "C11", "C12", "C13", "C16", "C18", "C19"]
ap = argparse.ArgumentParser()
ap.add_argument("--budget", type=int, default=20)
ap.add_argument("--checks", default=",".join(ALL))
ap.add_argument("--mutants", default="")
ap.add_argument("--own-only", action="store_true")
ap.add_argument("--neighbours", action="store_true", help="own property's check plus the checks of related properties")
ap.add_argument("--fresh", action="store_true", help="discard earlier results")
NEIGH = {"C01": ["C01", "C02", "C04", "C06"], "C02": ["C02", "C01", "C06", "C13"], "C04": ["C04", "C08", "C12", "C06"],
         "C05": ["C05", "C06", "C12"], "C06": ["C06", "C05"], "C08": ["C08", "C04", "C06", "C16", "C12"], "C09": ["C09", "C08"],
         "C11": ["C11", "C18"], "C12": ["C12", "C04", "C06", "C16", "C11"], "C13": ["C13", "C12", "C06", "C01"],
         "C16": ["C16", "C12", "C08", "C06"], "C18": ["C18", "C11", "C12"], "C19": ["C19", "C06"]}
a = ap.parse_args()
muts = sorted(d for d in os.listdir(f"{V}/seeded") if os.path.isdir(f"{V}/seeded/{d}") and os.path.exists(f"{V}/seeded/{d}/patch.diff"))
if a.mutants:
    muts = [m for m in muts if m in a.mutants.split(",")]
checks = a.checks.split(",")
out_path = f"{V}/seeded/matrix.json"
res = json.load(open(out_path)) if (os.path.exists(out_path) and not a.fresh) else {}
scratch = tempfile.mkdtemp(prefix="jtv_matrix_")
try:
    for m in muts:
        wt = os.path.join(scratch, "repo")
        shutil.rmtree(wt, ignore_errors=True)
        subprocess.run(["git", "-C", "/repo", "worktree", "prune"], check=False)
        subprocess.run(["git", "clone", "-q", "/repo", wt], check=True)
        p = subprocess.run(["git", "-C", wt, "apply", f"{V}/seeded/{m}/patch.diff"], capture_output=True, text=True)
        if p.returncode != 0:
            res.setdefault(m, {})["_apply"] = "FAILED: " + p.stderr[-200:]
            continue
        for c in checks:
            if a.own_only and not m.startswith(c):
                continue
            if a.neighbours and c not in NEIGH.get(m.split("-")[0], [m.split("-")[0]]):
                continue
            env = dict(os.environ, VERIF_REPO=wt, VERIF_BUDGET_S=str(a.budget), VERIF_EVIDENCE_DIR=os.path.join(scratch, "ev"),
                       VERIF_REPLAY_DIR=os.path.join(scratch, "rp"), VERIF_SHRINK_S="20")
            t = time.time()
            q = subprocess.run([f"{V}/check", c, "--tier", "quick"], env=env, capture_output=True, text=True, timeout=1200)
            rc_eff = q.returncode if not (q.returncode == 1 and "VIOLATION property=" not in q.stdout) else 2
            mo = re.search(r"oracle=(\S+)", q.stdout)
            res.setdefault(m, {})[c] = {"rc": rc_eff, "wall": round(time.time() - t, 1), "oracle": mo.group(1) if mo else None}
            print(m, c, res[m][c], flush=True)
            json.dump(res, open(out_path, "w"), indent=1, sort_keys=True)
finally:
    shutil.rmtree(scratch, ignore_errors=True)
json.dump(res, open(out_path, "w"), indent=1, sort_keys=True)
