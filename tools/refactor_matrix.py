#!/usr/bin/env python3
"""False-alarm test: every behaviour-preserving refactoring under seeded/refactor-*/ (written by independent sub-agents, each
verified by its author with a differential harness and the repository suite) is applied to a scratch clone of /repo and EVERY
check's quick command is run against it: all must exit 0.  Writes /verif/seeded/refactor_matrix.json."""
import argparse, json, os, re, shutil, subprocess, tempfile, time

V = "/verif"
ALL = ["C01", "C02", "C04", "C05", "C06", "C08", "C09", "C11", "C12", "C13", "C16", "C18", "C19"]
ap = argparse.ArgumentParser()
ap.add_argument("--budget", type=int, default=15)
ap.add_argument("--only", default="")
ap.add_argument("--checks", default=",".join(ALL))
a = ap.parse_args()
refs = sorted(d for d in os.listdir(f"{V}/seeded") if d.startswith("refactor-") and os.path.isdir(f"{V}/seeded/{d}"))
if a.only:
    refs = [r for r in refs if r in a.only.split(",")]
out_path = f"{V}/seeded/refactor_matrix.json"
res = json.load(open(out_path)) if os.path.exists(out_path) else {}
scratch = tempfile.mkdtemp(prefix="jtv_refm_")
try:
    for r in refs:
        wt = os.path.join(scratch, "repo")
        shutil.rmtree(wt, ignore_errors=True)
        subprocess.run(["git", "clone", "-q", "/repo", wt], check=True)
        p = subprocess.run(["git", "-C", wt, "apply", f"{V}/seeded/{r}/patch.diff"], capture_output=True, text=True)
        if p.returncode != 0:
            res.setdefault(r, {})["_apply"] = "FAILED " + p.stderr[-200:]
            continue
        q = subprocess.run(["/venv/bin/python", "-m", "pytest", "-q", "-p", "no:cacheprovider", "--timeout=900", "test/"], cwd=wt,
                           env=dict(os.environ, PYTHONPATH=wt), capture_output=True, text=True, timeout=1800)
        res.setdefault(r, {})["_suite"] = q.stdout.strip().splitlines()[-1] if q.stdout.strip() else "?"
        for c in a.checks.split(","):
            env = dict(os.environ, VERIF_REPO=wt, VERIF_BUDGET_S=str(a.budget), VERIF_EVIDENCE_DIR=os.path.join(scratch, "ev"),
                       VERIF_REPLAY_DIR=os.path.join(scratch, "rp_" + r + "_" + c), VERIF_SHRINK_S="20")
            t = time.time()
            q = subprocess.run([f"{V}/check", c, "--tier", "quick"], env=env, capture_output=True, text=True, timeout=1200)
            rc_eff = q.returncode if not (q.returncode == 1 and "VIOLATION property=" not in q.stdout) else 2
            mo = re.search(r"oracle=(\S+) detail=(.{0,400})", q.stdout)
            gaps = re.search(r"reach: counters still at zero in this batch: (.*)", q.stdout)
            res[r][c] = {"rc": rc_eff, "wall": round(time.time() - t, 1), "oracle": mo.group(1) if mo else None,
                         "detail": mo.group(2) if mo else None, "reach_gaps": gaps.group(1) if gaps else None}
            print(r, c, {k: v for k, v in res[r][c].items() if v}, flush=True)
            json.dump(res, open(out_path, "w"), indent=1, sort_keys=True)
finally:
    shutil.rmtree(scratch, ignore_errors=True)
