#!/bin/bash
# tools/try_mutant.sh <seeded dir | patch file> <PID> [budget_s]  : apply to /repo, run the quick check, undo.
p=$(realpath $1); [ -d "$p" ] && p=$p/patch.diff
pid=$2; b=${3:-30}
git -C /repo apply "$p" || { echo "APPLY FAILED $p"; exit 3; }
cd /verif && VERIF_BUDGET_S=$b ./check $pid --tier quick > /tmp/mut_$$.log 2>&1; rc=$?
git -C /repo checkout -- . ; git -C /repo reset -q; git -C /repo clean -fdq jaxtyping  # patches may add files
grep -E "VIOLATION|KNOWN-FINDING|HARNESS|oracle=|runs=" /tmp/mut_$$.log | cut -c1-600
echo "MUTANT $1 $pid rc=$rc"; rm -f /tmp/mut_$$.log
