#!/bin/bash
# validate one seeded change: tools/validate_seeded.sh <dir with patch.diff demo.py>  -> prints RESULT line
# Uses a scratch worktree under /tmp/val (outside /repo and /verif) and removes it afterwards.
d=$(realpath "$1"); id=$(basename "$d"); wt=/tmp/val/$id
mkdir -p /tmp/val; git -C /repo worktree remove --force $wt 2>/dev/null
git -C /repo worktree add -q --detach $wt HEAD || exit 2
cd $wt
export PYTHONPATH=$wt PYTHONDONTWRITEBYTECODE=1
mkdir -p _out/$id; cp $d/demo.py _out/$id/demo.py
timeout 300 /venv/bin/python _out/$id/demo.py >/tmp/val/$id.clean.log 2>&1; clean=$?
git apply $d/patch.diff || { echo "RESULT $id patch-does-not-apply"; cd /; git -C /repo worktree remove --force $wt; exit 1; }
timeout 300 /venv/bin/python _out/$id/demo.py >/tmp/val/$id.mut.log 2>&1; mut=$?
timeout 900 /venv/bin/python -m pytest -q -p no:cacheprovider --timeout=900 test/ >/tmp/val/$id.tests.log 2>&1
summary=$(tail -1 /tmp/val/$id.tests.log)
cd /; git -C /repo worktree remove --force $wt
echo "RESULT $id demo_clean_rc=$clean demo_mutant_rc=$mut tests: $summary"
